// codec engine (C01 layers 0/2/3, C02 parser half): every registered parser under generated / mutated documents.
//   codec list
//   codec c02 <seeds.jsonl> <seed> <worker> <ncases> [only-case]
//   codec c01doc <seeds.jsonl> <seed> <worker> <nworkers> <max-positions-per-(seed,type)> [only-pair]
//   codec scalars
#include "codec_registry.h"

#include "QXmppUtils.h"
#include "QXmppUtils_p.h"

#include <QCoreApplication>
#include <QFile>
#include <csignal>
#include <map>
#include <random>
#include <set>
#include <unistd.h>

static QByteArray g_currentDoc;
static QByteArray g_currentWhat;
static long g_currentCase = -1;
static bool g_heavy = false;  // thorough tier: nesting depth 2000 and 1 MiB text

static void dumpCurrent(const char *why)
{
    QJsonObject o;
    o["abort"] = QString::fromLatin1(why);
    o["case"] = double(g_currentCase);
    o["what"] = QString::fromUtf8(g_currentWhat);
    o["doc"] = QString::fromUtf8(g_currentDoc.left(20000));
    o["doc_len"] = g_currentDoc.size();
    emitJson(o);
}
#if defined(__SANITIZE_ADDRESS__)
extern "C" void __sanitizer_set_death_callback(void (*)(void));
static void onSanitizerDeath() { dumpCurrent("sanitizer"); }
#endif
static void onAlarm(int)
{
    dumpCurrent("timeout");
    _exit(79);
}
static void onSegv(int sig)
{
    // stack overflow / wild access not caught by ASan's own handler
    dumpCurrent(sig == SIGSEGV ? "sigsegv" : "signal");
    _exit(80);
}

// ------------------------------------------------------------------------------------------------ XML helpers

static bool parseDoc(const QByteArray &xml, QDomDocument &doc)
{
    return doc.setContent(xml, true);
}

static QString attrKey(const QDomAttr &a)
{
    return a.namespaceURI() + u'|' + (a.localName().isEmpty() ? a.name() : a.localName());
}

static bool isNsDecl(const QDomAttr &a)
{
    return a.name() == u"xmlns" || a.name().startsWith(u"xmlns:") || a.namespaceURI() == u"http://www.w3.org/2000/xmlns/";
}

// canonical form: (ns,local) + sorted attributes + direct text + sorted children
static QString canon(const QDomElement &el, bool skeletonOnly = false)
{
    QString out = u'{' + el.namespaceURI() + u'}' + (el.localName().isEmpty() ? el.tagName() : el.localName());
    if (!skeletonOnly) {
        QStringList attrs;
        const auto map = el.attributes();
        for (int i = 0; i < map.count(); i++) {
            auto a = map.item(i).toAttr();
            if (isNsDecl(a)) continue;
            attrs << attrKey(a) + u'=' + a.value();
        }
        attrs.sort();
        out += u'[' + attrs.join(u'\x1f') + u']';
    }
    QStringList kids;
    QString text;
    bool hasElementChild = false;
    for (auto n = el.firstChild(); !n.isNull(); n = n.nextSibling()) {
        if (n.isElement()) {
            hasElementChild = true;
            kids << canon(n.toElement(), skeletonOnly);
        } else if (n.isText() || n.isCDATASection()) {
            text += n.nodeValue();
        }
    }
    kids.sort();
    if (!skeletonOnly) {
        // whitespace-only text next to element children is formatting, not content
        if (hasElementChild && text.trimmed().isEmpty()) text.clear();
        out += u'"' + text + u'"';
    }
    out += u'(' + kids.join(u'\x1e') + u')';
    return out;
}

static std::optional<QString> canonOfBytes(const QByteArray &xml, bool skeleton = false)
{
    QDomDocument doc;
    if (!parseDoc(xml, doc)) return std::nullopt;
    return canon(doc.documentElement(), skeleton);
}

// first place where two trees differ (modulo sibling/attribute order), as a path; used for violation signatures
static QString diffPath(const QDomElement &a, const QDomElement &b, int depth = 0)
{
    auto nm = [](const QDomElement &e) { return e.localName().isEmpty() ? e.tagName() : e.localName(); };
    if (nm(a) != nm(b) || a.namespaceURI() != b.namespaceURI()) return u":name"_s;
    if (depth > 40) return u"/..."_s;
    QMap<QString, QString> aa, ab;
    for (int i = 0; i < a.attributes().count(); i++) {
        auto at = a.attributes().item(i).toAttr();
        if (!isNsDecl(at)) aa[at.name()] = at.value();
    }
    for (int i = 0; i < b.attributes().count(); i++) {
        auto at = b.attributes().item(i).toAttr();
        if (!isNsDecl(at)) ab[at.name()] = at.value();
    }
    for (auto it = aa.begin(); it != aa.end(); ++it) {
        if (!ab.contains(it.key())) return u"/@"_s + it.key() + u":lost"_s;
        if (ab[it.key()] != it.value()) return u"/@"_s + it.key() + u":changed"_s;
    }
    for (auto it = ab.begin(); it != ab.end(); ++it)
        if (!aa.contains(it.key())) return u"/@"_s + it.key() + u":added"_s;
    QList<QDomElement> ka, kb;
    QString ta, tb;
    for (auto n = a.firstChild(); !n.isNull(); n = n.nextSibling()) {
        if (n.isElement()) ka << n.toElement();
        else if (n.isText()) ta += n.nodeValue();
    }
    for (auto n = b.firstChild(); !n.isNull(); n = n.nextSibling()) {
        if (n.isElement()) kb << n.toElement();
        else if (n.isText()) tb += n.nodeValue();
    }
    if ((ka.isEmpty() || kb.isEmpty() || !ta.trimmed().isEmpty() || !tb.trimmed().isEmpty()) && ta != tb) return u"/text():changed"_s;
    // drop exactly matching children pairwise
    for (int i = ka.size() - 1; i >= 0; i--) {
        const QString c = canon(ka[i]);
        for (int j = 0; j < kb.size(); j++) {
            if (canon(kb[j]) == c) {
                ka.removeAt(i);
                kb.removeAt(j);
                break;
            }
        }
    }
    for (auto &ea : ka) {
        for (auto &eb : kb) {
            if (nm(ea) == nm(eb) && ea.namespaceURI() == eb.namespaceURI()) return u"/"_s + nm(ea) + diffPath(ea, eb, depth + 1);
        }
        return u"/"_s + nm(ea) + u":lost"_s;
    }
    for (auto &eb : kb) return u"/"_s + nm(eb) + u":added"_s;
    return u":order-or-whitespace"_s;
}

static QString diffPathBytes(const QByteArray &x1, const QByteArray &x2)
{
    QDomDocument a, b;
    if (!parseDoc(x1, a) || !parseDoc(x2, b)) return u":unparseable"_s;
    return diffPath(a.documentElement(), b.documentElement());
}

// parses serializer output; serializers that write a sequence of siblings (no single root) are wrapped
static bool parseOutput(const QByteArray &x, QDomDocument &doc, bool fragment = false)
{
    if (!fragment && parseDoc(x, doc)) return true;
    return parseDoc("<wrapped-fragment>" + x + "</wrapped-fragment>", doc);
}

// serializers of nested elements rely on the default namespace their parent declared: give a namespace-less root the seed's namespace
static QByteArray adoptNs(const QByteArray &x, const QString &ns)
{
    if (ns.isEmpty()) return x;
    QDomDocument d;
    if (!parseDoc(x, d)) return x;
    auto root = d.documentElement();
    if (!root.namespaceURI().isEmpty() || root.hasAttribute(u"xmlns"_s) || root.tagName().contains(u':')) return x;
    root.setAttribute(u"xmlns"_s, ns);
    return d.toByteArray(-1);
}

static void collectElements(const QDomElement &el, QList<QDomElement> &out)
{
    out << el;
    for (auto c = el.firstChildElement(); !c.isNull(); c = c.nextSiblingElement()) collectElements(c, out);
}

static void collectElements(const QDomElement &el, QList<QDomElement> &out);
struct Seed {
    QByteArray xml;
    QString root, ns;
    bool topLevel = false;
};

static std::vector<Seed> loadSeeds(const char *path)
{
    std::vector<Seed> seeds;
    QFile f(QString::fromLocal8Bit(path));
    if (!f.open(QIODevice::ReadOnly)) {
        fprintf(stderr, "cannot open seeds %s\n", path);
        exit(3);
    }
    while (!f.atEnd()) {
        auto o = QJsonDocument::fromJson(f.readLine()).object();
        if (o.isEmpty()) continue;
        QByteArray xml = o["xml"].toString().toUtf8();
        QDomDocument d;
        if (!parseDoc(xml, d)) continue;
        seeds.push_back({ xml, o["root"].toString(), o["ns"].toString(), true });
    }
    // every descendant element of a seed is a seed of its own (payload classes are parsed from their own element)
    std::set<QString> seen;
    const size_t n = seeds.size();
    for (size_t i = 0; i < n; i++) {
        QDomDocument d;
        parseDoc(seeds[i].xml, d);
        QList<QDomElement> els;
        collectElements(d.documentElement(), els);
        for (int k = 1; k < els.size(); k++) {
            if (els[k].firstChildElement().isNull() && els[k].attributes().count() == 0 && els[k].text().isEmpty()) continue;
            const QString key = canon(els[k]);
            if (!seen.insert(key).second) continue;
            QDomDocument sub;
            auto imported = sub.importNode(els[k], true).toElement();
            sub.appendChild(imported);
            if (!els[k].namespaceURI().isEmpty() && !imported.hasAttribute(u"xmlns"_s) && imported.prefix().isEmpty()) imported.setAttribute(u"xmlns"_s, els[k].namespaceURI());
            QByteArray bytes = sub.toByteArray(-1);
            QDomDocument chk;
            if (!parseDoc(bytes, chk)) continue;
            seeds.push_back({ bytes, els[k].localName().isEmpty() ? els[k].tagName() : els[k].localName(), els[k].namespaceURI() });
        }
    }
    return seeds;
}

// ------------------------------------------------------------------------------------------------ reporting

struct Reporter {
    std::map<QString, int> perSig;
    long violations = 0;
    void violation(const QString &kind, const QString &type, const QJsonObject &detail)
    {
        violations++;
        const QString sig = kind + u' ' + type;
        if (++perSig[sig] > 3) return;
        QJsonObject o = detail;
        o["violation"] = kind;
        o["type"] = type;
        o["case"] = double(g_currentCase);
        emitJson(o);
    }
};

// ------------------------------------------------------------------------------------------------ C02 mutators

static const char *HOSTILE_NUM[] = { "-1", "0", "255", "256", "32767", "32768", "65535", "65536", "2147483647", "2147483648", "4294967295", "4294967296",
                                     "9223372036854775807", "9223372036854775808", "18446744073709551615", "18446744073709551616", "99999999999999999999999999",
                                     "-9223372036854775809", "1e999", "NaN", "0x10", " 12 ", "+5", "1.5", "", "true", "٣" };
static const char *HOSTILE_STR[] = { "", " ", "unknown-enum-value", "ERROR", "get", "set", "result", "chat", "both", "remove", "<>&\"'", "\xF0\x9F\x98\x80", "a@b/c", "@", "/", "a@", "@b",
                                     "xmpp:a@b?x", "2024-13-45T99:99:99Z", "1970-01-01T00:00:00.000Z", "-0001-01-01T00:00:00Z", "+25:61", "AAAA====", "!!!notbase64!!!", "sha-256", "sha3-512" };
static const char *NAMESPACES[] = { "jabber:client", "jabber:server", "urn:xmpp:sm:3", "urn:xmpp:sasl:2", "jabber:x:data", "urn:xmpp:jingle:1", "http://jabber.org/protocol/pubsub",
                                    "http://jabber.org/protocol/pubsub#event", "urn:xmpp:mix:core:1", "urn:xmpp:forward:0", "urn:xmpp:carbons:2", "urn:ietf:params:xml:ns:xmpp-stanzas",
                                    "urn:xmpp:sce:1", "urn:xmpp:tm:1", "urn:xmpp:sfs:0", "urn:xmpp:file:metadata:0", "garbage:ns", "" };

// elements of the corpus grouped by namespace: "another word of the same vocabulary" (e.g. a second error condition)
static std::map<QString, std::vector<QByteArray>> g_vocab;
static void buildVocabulary(const std::vector<Seed> &seeds)
{
    std::map<QString, std::set<QString>> seen;
    for (const auto &sd : seeds) {
        QDomDocument d;
        if (!parseDoc(sd.xml, d)) continue;
        QList<QDomElement> els;
        collectElements(d.documentElement(), els);
        for (const auto &e : els) {
            const QString ns = e.namespaceURI();
            const QString key = (e.localName().isEmpty() ? e.tagName() : e.localName()) + (e.text().isEmpty() ? u""_s : u"+text"_s);
            if (g_vocab[ns].size() >= 96 || !seen[ns].insert(key).second) continue;
            QDomDocument sub;
            auto imported = sub.importNode(e, true).toElement();
            sub.appendChild(imported);
            if (!ns.isEmpty() && !imported.hasAttribute(u"xmlns"_s) && imported.prefix().isEmpty()) imported.setAttribute(u"xmlns"_s, ns);
            const QByteArray bytes = sub.toByteArray(-1);
            if (bytes.size() < 3000) g_vocab[ns].push_back(bytes);
        }
    }
}
// inserts next to el an element of el's own namespace taken from the corpus (different local name preferred)
template<class Rng>
static bool addVocabularySibling(QDomDocument &doc, QDomElement el, Rng &rng)
{
    if (el == doc.documentElement()) return false;
    auto it = g_vocab.find(el.namespaceURI());
    if (it == g_vocab.end() || it->second.size() < 2) return false;
    for (int tries = 0; tries < 4; tries++) {
        QDomDocument other;
        if (!parseDoc(it->second[rng() % it->second.size()], other)) continue;
        auto oe = other.documentElement();
        if (tries < 3 && oe.localName() == el.localName()) continue;
        auto sub = doc.importNode(oe, true);
        if (rng() % 2) el.parentNode().insertAfter(sub, el);
        else el.parentNode().insertBefore(sub, el);
        return true;
    }
    return false;
}

// same tag, other namespace: what a parser that filters children by (tag, namespace) must step over
template<class Rng>
static bool addForeignTwin(QDomDocument &doc, QDomElement el, Rng &rng)
{
    if (el == doc.documentElement()) return false;
    static const char *NS[] = { "urn:example:foreign", "jabber:client", "", "urn:xmpp:sm:3" };
    auto twin = el.cloneNode(rng() % 2 == 0).toElement();
    twin.setAttribute(u"xmlns"_s, QString::fromLatin1(NS[rng() % 4]));
    if (rng() % 2) el.parentNode().insertAfter(twin, el);
    else el.parentNode().insertBefore(twin, el);
    return true;
}

struct Mutator {
    std::mt19937_64 &rng;
    const std::vector<Seed> &seeds;
    std::map<int, long> opCount;
    bool deepDone = false;

    QDomElement pick(QDomDocument &doc)
    {
        QList<QDomElement> els;
        collectElements(doc.documentElement(), els);
        return els[rng() % els.size()];
    }
    QString hostileValue()
    {
        switch (rng() % 12) {
        case 0: case 1: case 2: case 3: return QString::fromUtf8(HOSTILE_NUM[rng() % (sizeof(HOSTILE_NUM) / sizeof(char *))]);
        case 4: case 5: case 6: case 7: return QString::fromUtf8(HOSTILE_STR[rng() % (sizeof(HOSTILE_STR) / sizeof(char *))]);
        case 8: return QString(int(1 + rng() % ((rng() % 8) ? 300 : 70000)), QChar(ushort(u'A' + rng() % 26)));
        default: return QString::number(qint64(rng()));
        }
    }
    void apply(QDomDocument &doc, int op)
    {
        opCount[op]++;
        auto root = doc.documentElement();
        auto el = pick(doc);
        switch (op) {
        case 0: {  // delete a child
            if (el != root) el.parentNode().removeChild(el);
            break;
        }
        case 1: {  // duplicate
            if (el != root) el.parentNode().insertAfter(el.cloneNode(true), el);
            else root.appendChild(root.firstChild().cloneNode(true));
            break;
        }
        case 2: {  // reorder children
            QList<QDomNode> kids;
            for (auto c = el.firstChild(); !c.isNull(); c = c.nextSibling()) kids << c;
            std::shuffle(kids.begin(), kids.end(), rng);
            for (auto &k : kids) el.appendChild(k);
            break;
        }
        case 3: {  // move under a wrong parent
            auto target = pick(doc);
            bool inside = false;
            for (auto p = QDomNode(target); !p.isNull(); p = p.parentNode())
                if (p == el) inside = true;
            if (!inside && el != root) target.appendChild(el);
            break;
        }
        case 4: {  // re-namespace
            const char *ns = NAMESPACES[rng() % (sizeof(NAMESPACES) / sizeof(char *))];
            // namespace URIs are attribute values: quotes and markup characters are legal in them (escaped on input)
            static const char *HOSTILE_NS[] = { "urn:q\"uote", "urn:x\"/></message><iq type=\"set\" id=\"smuggled\"><query xmlns=\"jabber:iq:roster", "urn:a<b>c", "urn:a&b;c", "urn:a'b", "urn:]]>", "urn:\xc3\xa9\xe4\xb8\xad" };
            if (rng() % 5 == 0) ns = HOSTILE_NS[rng() % (sizeof(HOSTILE_NS) / sizeof(char *))];
            el.setAttribute(u"xmlns"_s, QString::fromUtf8(ns));
            break;
        }
        case 5: {  // strip attribute
            auto m = el.attributes();
            if (m.count()) {
                auto a = m.item(rng() % m.count()).toAttr();
                if (!isNsDecl(a)) el.removeAttributeNode(a);
            }
            break;
        }
        case 6: {  // empty attribute
            auto m = el.attributes();
            if (m.count()) {
                auto a = m.item(rng() % m.count()).toAttr();
                if (!isNsDecl(a)) a.setValue(QString());  // (a second xmlns="" next to the implied declaration would not be well-formed)
            }
            break;
        }
        case 7: {  // hostile attribute value
            auto m = el.attributes();
            if (m.count()) {
                auto a = m.item(rng() % m.count()).toAttr();
                if (!isNsDecl(a)) a.setValue(hostileValue());
            }
            break;
        }
        case 8: {  // hostile text
            for (auto n = el.firstChild(); !n.isNull(); n = n.nextSibling())
                if (n.isText()) {
                    n.setNodeValue(hostileValue());
                    return;
                }
            el.appendChild(doc.createTextNode(hostileValue()));
            break;
        }
        case 9: {  // deep nesting (at most once per case, total depth <= 2000)
            if (deepDone) break;
            deepDone = true;
            int depth = (rng() % 16 == 0) ? (g_heavy ? 2000 : 300) : int(rng() % 100);
            QDomElement cur = el;
            for (int i = 0; i < depth; i++) {
                auto c = doc.createElement(el.tagName());
                if (el.hasAttribute(u"xmlns"_s)) c.setAttribute(u"xmlns"_s, el.attribute(u"xmlns"_s));
                cur.appendChild(c);
                cur = c;
            }
            break;
        }
        case 10: {  // huge text
            el.appendChild(doc.createTextNode(QString(int(1 << ((rng() % 32) ? (6 + rng() % 8) : (g_heavy ? 20 : 16))), QChar(u'x'))));
            break;
        }
        case 11: {  // cross-breed: import a subtree from another seed
            QDomDocument other;
            parseDoc(seeds[rng() % seeds.size()].xml, other);
            QList<QDomElement> els;
            collectElements(other.documentElement(), els);
            auto sub = doc.importNode(els[rng() % els.size()], true);
            el.appendChild(sub);
            break;
        }
        case 12: {  // rename tag
            QDomDocument other;
            parseDoc(seeds[rng() % seeds.size()].xml, other);
            QList<QDomElement> els;
            collectElements(other.documentElement(), els);
            el.setTagName(els[rng() % els.size()].tagName());
            break;
        }
        case 13: {  // unknown child / attribute
            if (rng() % 2) el.appendChild(doc.createElement(u"unknown-element"_s));
            else el.setAttribute(u"unknown-attr"_s, hostileValue());
            break;
        }
        case 14: {  // remove all children or attributes
            if (rng() % 2) {
                while (!el.firstChild().isNull()) el.removeChild(el.firstChild());
            } else {
                auto m = el.attributes();
                while (m.count()) el.removeAttributeNode(m.item(0).toAttr());
            }
            break;
        }
        case 15: {  // many siblings
            if (el != root) {
                int k = 1 << (rng() % 8);
                for (int i = 0; i < k; i++) el.parentNode().appendChild(el.cloneNode(true));
            }
            break;
        }
        case 16: {  // a sibling from the same vocabulary
            addVocabularySibling(doc, el, rng);
            break;
        }
        case 17: {  // a twin of the element in a foreign namespace, before or after it
            addForeignTwin(doc, el, rng);
            break;
        }
        }
    }
};
static const int N_OPS = 18;

struct ParserStats {
    long admitted = 0, parsed = 0, fixpoint = 0;
};

static void runC02(int argc, char **argv)
{
    auto seeds = loadSeeds(argv[2]);
    const quint64 seed = strtoull(argv[3], nullptr, 10);
    const int worker = atoi(argv[4]);
    const long ncases = atol(argv[5]);
    const long only = argc > 6 ? atol(argv[6]) : -1;
    g_heavy = qEnvironmentVariableIsSet("VERIF_HEAVY");
    auto reg = buildRegistry();
    std::vector<ParserStats> stats(reg.size());
    Reporter rep;
    std::map<int, long> opTotal;
    long applications = 0;
    const long startCase = qEnvironmentVariableIntValue("VERIF_START_CASE");
    buildVocabulary(seeds);
    // systematic pass after the random cases: every element of every top-level seed document gets VERIF_SIB siblings from its own vocabulary
    struct SibCase {
        size_t seed;
        int element, j;
    };
    std::vector<SibCase> sib;
    const int sibPer = qEnvironmentVariableIntValue("VERIF_SIB");
    const int nworkers = qMax(1, qEnvironmentVariableIntValue("VERIF_NWORKERS"));
    if (sibPer > 0) {
        for (size_t si = 0; si < seeds.size(); si++) {
            if (!seeds[si].topLevel || int(si % size_t(nworkers)) != worker % nworkers) continue;
            QDomDocument d;
            parseDoc(seeds[si].xml, d);
            QList<QDomElement> els;
            collectElements(d.documentElement(), els);
            for (int k = 1; k < els.size() && k < 60; k++) {
                auto it = g_vocab.find(els[k].namespaceURI());
                if (it == g_vocab.end() || it->second.size() < 2) continue;
                for (int j = 0; j < sibPer; j++) sib.push_back({ si, k, j });
            }
            // ... and a foreign twin next to every element
            for (int k = 1; k < els.size() && k < 60; k++) sib.push_back({ si, k, -1 });
        }
    }
    long sibCases = 0;
    for (long c = startCase; c < ncases + long(sib.size()); c++) {
        if (only >= 0 && c != only) continue;
        std::mt19937_64 rng(seed * 1000003ull + quint64(worker) * 7919ull + quint64(c) * 104729ull);
        Mutator mut { rng, seeds, {}, false };
        QDomDocument doc;
        if (c >= ncases) {
            const auto &sc = sib[size_t(c - ncases)];
            parseDoc(seeds[sc.seed].xml, doc);
            QList<QDomElement> els;
            collectElements(doc.documentElement(), els);
            if (sc.j < 0 ? !addForeignTwin(doc, els[sc.element], rng) : !addVocabularySibling(doc, els[sc.element], rng)) continue;
            sibCases++;
            opTotal[sc.j < 0 ? 17 : 16]++;
        } else {
        parseDoc(seeds[(size_t(c) * 16 + size_t(worker) + rng() % 3) % seeds.size()].xml, doc);
        int nops = (rng() % 8 == 0) ? 0 : 1 + int(rng() % 3);
        for (int i = 0; i < nops; i++) mut.apply(doc, int(rng() % N_OPS));
        for (auto &kv : mut.opCount) opTotal[kv.first] += kv.second;
        }
        // serialize and re-parse so parsers see exactly what would arrive from the wire
        const QByteArray docBytes = doc.toByteArray(-1);
        g_currentCase = c;
        g_currentDoc = docBytes;
        g_currentWhat = "reparse-input";
        QDomDocument in;
        if (!parseDoc(docBytes, in)) continue;  // mutation produced something Qt cannot re-read (e.g. illegal name): skip
        const QDomElement el = in.documentElement();
        if (only >= 0) {
            QJsonObject o;
            o["replay_doc"] = QString::fromUtf8(docBytes.left(100000));
            emitJson(o);
        }
        for (size_t i = 0; i < reg.size(); i++) {
            auto &e = reg[i];
            g_currentWhat = e.name.toUtf8() + " check";
            alarm((g_heavy ? 120 : 30) * qMax(1, qEnvironmentVariableIntValue("VERIF_ALARM_SCALE")));
            if (e.hasCheck && !e.check(el)) continue;
            stats[i].admitted++;
            applications++;
            g_currentWhat = e.name.toUtf8() + " pass1";
            // nested serializers rely on the default namespace of their parent: give a namespace-less output root the input's namespace
            auto passNs = [&](const QDomElement &in2) -> std::optional<QByteArray> {
                auto r = e.pass(in2);
                if (r && !e.fragment) r = adoptNs(*r, el.namespaceURI());
                return r;
            };
            auto x1 = passNs(el);
            if (!x1) continue;
            stats[i].parsed++;
            if (x1->trimmed().isEmpty()) continue;  // nothing serialized (object considered empty)
            g_currentWhat = e.name.toUtf8() + " reparse1";
            QDomDocument d1;
            if (!parseOutput(*x1, d1, e.fragment)) {
                rep.violation(u"output-not-wellformed"_s, e.name, { { "doc", QString::fromUtf8(docBytes.left(4000)) }, { "x1", QString::fromUtf8(x1->left(4000)) } });
                continue;
            }
            g_currentWhat = e.name.toUtf8() + " pass2";
            auto x2 = passNs(d1.documentElement());
            if (!x2) {
                rep.violation(u"own-output-refused"_s, e.name, { { "doc", QString::fromUtf8(docBytes.left(4000)) }, { "x1", QString::fromUtf8(x1->left(4000)) } });
                continue;
            }
            auto c1 = canon(d1.documentElement());
            QDomDocument d2;
            const bool ok2 = parseOutput(*x2, d2, e.fragment);
            if (!ok2 || canon(d2.documentElement()) != c1) {
                // the namespace lent to a namespace-less output root also moves namespace-less descendants (which cannot exist inside a real
                // stream) into it; a drift that is gone when the library's output is re-parsed exactly as written is the harness's doing
                {
                    auto r1 = e.pass(el);
                    QDomDocument d1r, d2r;
                    if (r1 && !e.fragment && *r1 != *x1 && parseOutput(*r1, d1r, false)) {
                        auto r2 = e.pass(d1r.documentElement());
                        if (r2 && parseOutput(*r2, d2r, false) && canon(d2r.documentElement()) == canon(d1r.documentElement())) {
                            stats[i].fixpoint++;
                            continue;
                        }
                    }
                }
                rep.violation(u"not-a-fixpoint "_s + (x2->trimmed().isEmpty() ? u":second-pass-writes-nothing"_s : ok2 ? diffPath(d1.documentElement(), d2.documentElement()) : u":unparseable"_s), e.name, { { "doc", QString::fromUtf8(docBytes.left(4000)) }, { "x1", QString::fromUtf8(x1->left(4000)) }, { "x2", QString::fromUtf8(x2->left(4000)) } });
                continue;
            }
            stats[i].fixpoint++;
        }
        alarm(0);
    }
    QJsonObject sum;
    sum["summary"] = true;
    sum["cases"] = double(ncases + sibCases);
    sum["systematic_sibling_cases"] = double(sibCases);
    sum["applications"] = double(applications);
    sum["violations"] = double(rep.violations);
    QJsonObject per;
    for (size_t i = 0; i < reg.size(); i++) {
        per[reg[i].name] = QJsonArray { double(stats[i].admitted), double(stats[i].parsed), double(stats[i].fixpoint) };
    }
    sum["parsers"] = per;
    QJsonObject ops;
    for (auto &kv : opTotal) ops[QString::number(kv.first)] = double(kv.second);
    sum["ops"] = ops;
    emitJson(sum);
}

// ------------------------------------------------------------------------------------------------ C02 live half: mutated stanzas for a connected client

// emit <seeds> <seed> <worker> <n>: n mutated stanzas (root message/presence/iq; payload seeds are wrapped into a stanza), one JSON line each
static void runEmit(int, char **argv)
{
    auto seeds = loadSeeds(argv[2]);
    const quint64 seed = strtoull(argv[3], nullptr, 10);
    const int worker = atoi(argv[4]);
    const long n = atol(argv[5]);
    buildVocabulary(seeds);
    static const char *FROMS[] = { "", "alice@example.org", "example.org", "alice@example.org/res1", "bob@example.org/r", "room@conference.example.org/nick", "pubsub.example.org" };
    long emitted = 0;
    for (long c = 0; emitted < n && c < n * 20; c++) {
        std::mt19937_64 rng(seed * 1000003ull + quint64(worker) * 7919ull + quint64(c) * 104729ull + 17);
        Mutator mut { rng, seeds, {}, false };
        QDomDocument doc;
        const Seed &sd = seeds[rng() % seeds.size()];
        parseDoc(sd.xml, doc);
        auto root = doc.documentElement();
        const QString rt = root.tagName();
        if (rt != u"message" && rt != u"presence" && rt != u"iq") {
            // payload: wrap into a stanza that could carry it
            QDomDocument w;
            const int kind = int(rng() % 4);
            auto st = w.createElement(kind == 0 ? u"message"_s : kind == 1 ? u"presence"_s : u"iq"_s);
            if (kind >= 2) {
                static const char *T[] = { "get", "set", "result", "error" };
                st.setAttribute(u"type"_s, QString::fromLatin1(T[rng() % 4]));
                st.setAttribute(u"id"_s, u"live-%1-%2"_s.arg(worker).arg(c));
            }
            w.appendChild(st);
            st.appendChild(w.importNode(root, true));
            doc = w;
            root = doc.documentElement();
        }
        int nops = (rng() % 4 == 0) ? 0 : 1 + int(rng() % 3);
        for (int i = 0; i < nops; i++) {
            int op = int(rng() % N_OPS);
            if (op == 9 || op == 10) op = 7;  // depth and size are the codec half's business; the wire is kept fast
            mut.apply(doc, op);
        }
        root = doc.documentElement();
        if (rng() % 2) {
            const char *f = FROMS[rng() % (sizeof(FROMS) / sizeof(char *))];
            if (*f) root.setAttribute(u"from"_s, QString::fromLatin1(f));
            else root.removeAttribute(u"from"_s);
        }
        if (rng() % 2) root.setAttribute(u"to"_s, u"alice@example.org/res1"_s);
        if (root.tagName() == u"iq" && rng() % 10) {
            // an IQ without one of the four types makes the client end the session (by design): keep most of them typed
            static const char *T[] = { "get", "set", "result", "error" };
            const QString t = root.attribute(u"type"_s);
            if (t != u"get" && t != u"set" && t != u"result" && t != u"error") root.setAttribute(u"type"_s, QString::fromLatin1(T[rng() % 4]));
        }
        // the stream's default namespace
        if (root.hasAttribute(u"xmlns"_s)) root.removeAttribute(u"xmlns"_s);
        const QByteArray bytes = doc.toByteArray(-1);
        QDomDocument chk;
        if (bytes.size() > 30000 || !chk.setContent("<stream:stream xmlns='jabber:client' xmlns:stream='http://etherx.jabber.org/streams'>" + bytes + "</stream:stream>", true)) continue;
        const QString t = chk.documentElement().firstChildElement().tagName();
        if (t != u"message" && t != u"presence" && t != u"iq") continue;
        emitJson(QJsonObject { { "xml", QString::fromUtf8(bytes) }, { "case", double(c) } });
        emitted++;
    }
}

// ------------------------------------------------------------------------------------------------ C01 document level

struct Position {
    int elementIndex;  // DFS index
    QString attr;      // empty = text
};

static void listPositions(const QDomElement &root, std::vector<Position> &out)
{
    QList<QDomElement> els;
    collectElements(root, els);
    for (int i = 0; i < els.size(); i++) {
        auto m = els[i].attributes();
        for (int k = 0; k < m.count(); k++) {
            auto a = m.item(k).toAttr();
            if (isNsDecl(a)) continue;
            out.push_back({ i, a.name() });
        }
        bool hasText = false, hasElem = false;
        for (auto n = els[i].firstChild(); !n.isNull(); n = n.nextSibling()) {
            if (n.isText() && !n.nodeValue().trimmed().isEmpty()) hasText = true;
            if (n.isElement()) hasElem = true;
        }
        if (hasText && !hasElem) out.push_back({ i, QString() });
    }
}

static QString posPath(const QDomElement &root, const Position &p)
{
    QList<QDomElement> els;
    collectElements(root, els);
    QStringList parts;
    for (QDomNode n = els[p.elementIndex]; !n.isNull() && n.isElement(); n = n.parentNode()) {
        auto e = n.toElement();
        parts.prepend(e.localName().isEmpty() ? e.tagName() : e.localName());
    }
    return parts.join(u'/') + (p.attr.isEmpty() ? u"/text()"_s : u"/@"_s + p.attr);
}

static void setPosition(QDomDocument &doc, const Position &p, const QString &value)
{
    QList<QDomElement> els;
    collectElements(doc.documentElement(), els);
    auto el = els[p.elementIndex];
    if (!p.attr.isEmpty()) {
        el.setAttribute(p.attr, value);
    } else {
        while (!el.firstChild().isNull()) el.removeChild(el.firstChild());
        el.appendChild(doc.createTextNode(value));
    }
}

static const char *untypedRoot(const QString &name)
{
    if (name == u"QXmppMessage") return "message";
    if (name == u"QXmppPresence") return "presence";
    if (name == u"QXmppIq") return "iq";
    if (name == u"QXmppStanza::Error") return "error";
    if (name == u"QXmppDataForm") return "x";
    return nullptr;
}

static void runC01Doc(int argc, char **argv)
{
    auto seeds = loadSeeds(argv[2]);
    const quint64 seed = strtoull(argv[3], nullptr, 10);
    const int worker = atoi(argv[4]);
    const int nworkers = atoi(argv[5]);
    const int maxPos = atoi(argv[6]);
    const long only = argc > 7 ? atol(argv[7]) : -1;
    auto reg = buildRegistry();
    Reporter rep;
    const QString W = u"Zq7tokenX"_s;
    const QStringList hostile = {
        u"Zq7<evil a=\"1\"/>&amp;]]>'\" x"_s,
        u"Zq7\U0001F600é中� z"_s,
        u"Zq7 a\tb\nc  d"_s,
        u"Zq7\"><x xmlns='y'/><!--"_s,
    };
    struct TStat {
        long pairs = 0, positions = 0, transparent = 0, hostileOk = 0, weakOk = 0, ownOutputStable = 0;
    };
    std::vector<TStat> tstats(reg.size());
    long pairIndex = -1, evaluations = 0;
    const long startPair = qEnvironmentVariableIntValue("VERIF_START_CASE");
    for (size_t si = 0; si < seeds.size(); si++) {
        for (size_t ti = 0; ti < reg.size(); ti++) {
            pairIndex++;
            if (pairIndex % nworkers != worker) continue;
            if (pairIndex < startPair) continue;
            if (only >= 0 && pairIndex != only) continue;
            auto &e = reg[ti];
            if (e.name == u"StreamErrorElement") continue;
            if (auto r = untypedRoot(e.name); r && seeds[si].root != QLatin1String(r)) continue;
            g_currentCase = pairIndex;
            g_currentDoc = seeds[si].xml;
            g_currentWhat = e.name.toUtf8() + " seed";
            QDomDocument sd;
            parseDoc(seeds[si].xml, sd);
            if (e.hasCheck && !e.check(sd.documentElement())) continue;
            alarm(60);
            const QString seedNs = sd.documentElement().namespaceURI();
            auto passNs = [&](const QDomElement &el) -> std::optional<QByteArray> {
                auto r = e.pass(el);
                if (r && !e.fragment) r = adoptNs(*r, seedNs);
                return r;
            };
            auto x1 = passNs(sd.documentElement());
            if (!x1 || x1->trimmed().isEmpty()) { alarm(0); continue; }
            QDomDocument base;
            if (!parseOutput(*x1, base, e.fragment)) {
                rep.violation(u"output-not-wellformed"_s, e.name, { { "doc", QString::fromUtf8(seeds[si].xml.left(3000)) }, { "x1", QString::fromUtf8(x1->left(3000)) } });
                alarm(0);
                continue;
            }
            {
                auto ln = [](const QDomElement &x) { return x.localName().isEmpty() ? x.tagName() : x.localName(); };
                if (!e.fragment && ln(base.documentElement()) != ln(sd.documentElement())) { alarm(0); continue; }  // the type does not represent this kind of element
                // the seed had a payload and nothing of it was kept: not an instance of this type (e.g. the suite's negative examples)
                if (!sd.documentElement().firstChildElement().isNull() && base.documentElement().firstChildElement().isNull()) { alarm(0); continue; }
            }
            // untyped parsers: only continue if something of the seed was retained
            if (!e.hasCheck && !untypedRoot(e.name) && e.name != u"QXmppElement") {
                auto c = canon(base.documentElement());
                if (!c.contains(u'=') && !c.contains(u"\"Z") && base.documentElement().firstChildElement().isNull() && base.documentElement().text().isEmpty()) { alarm(0); continue; }
            }
            tstats[ti].pairs++;
            evaluations++;
            // own output must be admitted by the type's own check and survive parse->serialize unchanged (up to order)
            const QString cBase = canon(base.documentElement());
            if (e.hasCheck && !e.check(base.documentElement())) {
                rep.violation(u"own-output-not-admitted"_s, e.name, { { "doc", QString::fromUtf8(seeds[si].xml.left(3000)) }, { "x1", QString::fromUtf8(x1->left(3000)) } });
                alarm(0);
                continue;
            }
            auto x2 = passNs(base.documentElement());
            if (!x2) {
                rep.violation(u"own-output-refused"_s, e.name, { { "doc", QString::fromUtf8(seeds[si].xml.left(3000)) }, { "x1", QString::fromUtf8(x1->left(3000)) } });
                alarm(0);
                continue;
            }
            QDomDocument d2;
            const bool ok2 = parseOutput(*x2, d2, e.fragment);
            if (!ok2 || canon(d2.documentElement()) != cBase) {
                rep.violation(u"own-output-changes "_s + (x2->trimmed().isEmpty() ? u":second-pass-writes-nothing"_s : ok2 ? diffPath(base.documentElement(), d2.documentElement()) : u":unparseable"_s), e.name, { { "doc", QString::fromUtf8(seeds[si].xml.left(3000)) }, { "x1", QString::fromUtf8(x1->left(3000)) }, { "x2", QString::fromUtf8(x2->left(3000)) } });
                alarm(0);
                continue;
            }
            tstats[ti].ownOutputStable++;
            if (base.documentElement().tagName() == u"wrapped-fragment") { alarm(0); continue; }
            // positions
            std::vector<Position> positions;
            listPositions(base.documentElement(), positions);
            std::mt19937_64 rng(seed * 1000003ull + quint64(pairIndex));
            std::shuffle(positions.begin(), positions.end(), rng);
            if (int(positions.size()) > maxPos) positions.resize(maxPos);
            for (auto &p : positions) {
                tstats[ti].positions++;
                evaluations++;
                // probe: is this a transparent (free text) position?
                QDomDocument dw;
                parseDoc(*x1, dw);
                setPosition(dw, p, W);
                g_currentDoc = dw.toByteArray(-1);
                g_currentWhat = e.name.toUtf8() + " probe " + p.attr.toUtf8();
                QDomDocument dwIn;
                if (!parseDoc(g_currentDoc, dwIn)) continue;
                if (e.hasCheck && !e.check(dwIn.documentElement())) continue;
                auto yw = passNs(dwIn.documentElement());
                if (!yw) continue;
                auto cyw = canonOfBytes(*yw);
                const QString cdw = canon(dwIn.documentElement());
                bool transparent = cyw && *cyw == cdw;
                if (transparent) {
                    // second probe: characters that typed fields (URLs, JIDs, MIME types, numbers) normalise or refuse, but free text keeps
                    QDomDocument dp;
                    parseDoc(*x1, dp);
                    setPosition(dp, p, u"Zq7 a{b}|c^d%zz e\\f`g"_s);
                    QDomDocument dpIn;
                    if (!parseDoc(dp.toByteArray(-1), dpIn) || (e.hasCheck && !e.check(dpIn.documentElement()))) {
                        transparent = false;
                    } else {
                        auto yp = passNs(dpIn.documentElement());
                        auto cyp = yp ? canonOfBytes(*yp) : std::nullopt;
                        transparent = cyp && *cyp == canon(dpIn.documentElement());
                    }
                }
                const QString skelW = transparent ? canon(dwIn.documentElement(), true) : QString();
                if (transparent) tstats[ti].transparent++;
                for (auto &h : hostile) {
                    evaluations++;
                    QDomDocument dh;
                    parseDoc(*x1, dh);
                    setPosition(dh, p, h);
                    g_currentDoc = dh.toByteArray(-1);
                    g_currentWhat = e.name.toUtf8() + " hostile " + p.attr.toUtf8();
                    QDomDocument dhIn;
                    if (!parseDoc(g_currentDoc, dhIn)) continue;  // Qt could not write/read this value at that position
                    const QString cdh = canon(dhIn.documentElement());
                    const QString pp = u" "_s + posPath(base.documentElement(), p);
                    QJsonObject det { { "doc", QString::fromUtf8(g_currentDoc.left(3000)) }, { "position", pp.mid(1) }, { "value", h } };
                    if (transparent) {
                        if (e.hasCheck && !e.check(dhIn.documentElement())) {
                            rep.violation(u"free-text-value-breaks-type-check"_s + pp, e.name, det);
                            continue;
                        }
                        auto yh = passNs(dhIn.documentElement());
                        if (!yh) {
                            rep.violation(u"free-text-value-refused"_s + pp, e.name, det);
                            continue;
                        }
                        det["out"] = QString::fromUtf8(yh->left(3000));
                        QDomDocument dy;
                        if (!parseDoc(*yh, dy)) {
                            rep.violation(u"output-not-wellformed"_s, e.name, det);
                            continue;
                        }
                        if (canon(dy.documentElement(), true) != skelW) {
                            rep.violation(u"markup-injection"_s + pp, e.name, det);
                            continue;
                        }
                        if (canon(dy.documentElement()) != cdh) {
                            rep.violation(u"free-text-value-altered"_s + pp, e.name, det);
                            continue;
                        }
                        tstats[ti].hostileOk++;
                    } else {
                        if (e.hasCheck && !e.check(dhIn.documentElement())) continue;
                        auto yh = passNs(dhIn.documentElement());
                        if (!yh || yh->trimmed().isEmpty()) continue;
                        det["out"] = QString::fromUtf8(yh->left(3000));
                        QDomDocument dy;
                        if (!parseDoc(*yh, dy)) {
                            rep.violation(u"output-not-wellformed"_s, e.name, det);
                            continue;
                        }
                        if (e.hasCheck && !e.check(dy.documentElement())) {
                            rep.violation(u"own-output-not-admitted"_s, e.name, det);
                            continue;
                        }
                        auto y2 = passNs(dy.documentElement());
                        if (!y2) {
                            rep.violation(u"own-output-refused"_s, e.name, det);
                            continue;
                        }
                        auto cy2 = canonOfBytes(*y2);
                        if (!cy2 || *cy2 != canon(dy.documentElement())) {
                            det["out2"] = QString::fromUtf8(y2->left(3000));
                            rep.violation(u"own-output-changes "_s + diffPathBytes(*yh, *y2), e.name, det);
                            continue;
                        }
                        tstats[ti].weakOk++;
                    }
                }
            }
            alarm(0);
        }
    }
    QJsonObject sum;
    sum["summary"] = true;
    sum["evaluations"] = double(evaluations);
    sum["violations"] = double(rep.violations);
    QJsonObject per;
    for (size_t i = 0; i < reg.size(); i++) {
        auto &t = tstats[i];
        per[reg[i].name] = QJsonArray { double(t.pairs), double(t.ownOutputStable), double(t.positions), double(t.transparent), double(t.hostileOk), double(t.weakOk) };
    }
    sum["types"] = per;
    emitJson(sum);
}

// ------------------------------------------------------------------------------------------------ C01 scalars

template<typename Int>
static void intRoundTrip(const char *name, Reporter &rep, long &n, std::mt19937_64 &rng)
{
    using L = std::numeric_limits<Int>;
    auto check = [&](Int v) {
        n++;
        auto s = serializeInt<Int>(v);
        auto back = parseInt<Int>(s);
        if (!back || *back != v) {
            const bool upperHalf = !std::is_signed_v<Int> && v > Int(L::max() / 2);
            rep.violation(upperHalf ? u"int-roundtrip-upper-half"_s : u"int-roundtrip"_s, QString::fromLatin1(name),
                          { { "value", s }, { "parsed", back ? QString::number(*back) : u"refused"_s } });
        }
    };
    if constexpr (sizeof(Int) <= 2) {
        for (long v = L::min(); v <= long(L::max()); v++) check(Int(v));
    } else {
        check(L::min());
        check(L::max());
        check(Int(L::min() + 1));
        check(Int(L::max() - 1));
        check(0);
        for (int b = 0; b < int(sizeof(Int) * 8); b++) {
            using U = std::make_unsigned_t<Int>;
            U p = U(U(1) << b);
            check(Int(p));
            check(Int(U(p - 1)));
            check(Int(U(~p)));
        }
        for (int i = 0; i < 20000; i++) check(Int(rng()));
    }
    // strings just outside the range or malformed must be refused
    auto refuse = [&](const QString &s) {
        n++;
        if (auto r = parseInt<Int>(s)) {
            rep.violation(u"int-accepts-out-of-range"_s, QString::fromLatin1(name), { { "string", s }, { "parsed", QString::number(*r) } });
        }
    };
    if constexpr (sizeof(Int) < 8) {
        refuse(QString::number(qint64(L::max()) + 1));
        refuse(QString::number(qint64(L::min()) - 1));
    } else if constexpr (std::is_signed_v<Int>) {
        refuse(u"9223372036854775808"_s);
        refuse(u"-9223372036854775809"_s);
    } else {
        refuse(u"18446744073709551616"_s);
        refuse(u"-1"_s);
    }
    for (auto s : { u""_s, u" "_s, u"0x10"_s, u"1.0"_s, u"1e3"_s, u"abc"_s, u"1 2"_s, u"--1"_s }) refuse(s);
}

static void runScalars()
{
    Reporter rep;
    long n = 0;
    std::mt19937_64 rng(12345);
    g_currentWhat = "scalars";
    intRoundTrip<int8_t>("int8", rep, n, rng);
    intRoundTrip<uint8_t>("uint8", rep, n, rng);
    intRoundTrip<int16_t>("int16", rep, n, rng);
    intRoundTrip<uint16_t>("uint16", rep, n, rng);
    intRoundTrip<int32_t>("int32", rep, n, rng);
    intRoundTrip<uint32_t>("uint32", rep, n, rng);
    intRoundTrip<int64_t>("int64", rep, n, rng);
    intRoundTrip<uint64_t>("uint64", rep, n, rng);
    // booleans
    for (bool b : { true, false }) {
        n++;
        auto r = parseBoolean(serializeBoolean(b));
        if (!r || *r != b) rep.violation(u"bool-roundtrip"_s, u"bool"_s, {});
    }
    for (auto s : { u"1"_s, u"0"_s, u"true"_s, u"false"_s }) {
        n++;
        if (!parseBoolean(s)) rep.violation(u"bool-lexical"_s, u"bool"_s, { { "string", s } });
    }
    for (auto s : { u""_s, u"yes"_s, u"TRUE"_s, u"2"_s, u" 1"_s }) {
        n++;
        if (parseBoolean(s)) rep.violation(u"bool-accepts-garbage"_s, u"bool"_s, { { "string", s } });
    }
    // base64: every length 0..300
    for (int len = 0; len <= 300; len++) {
        QByteArray d;
        for (int i = 0; i < len; i++) d.append(char(rng()));
        n++;
        auto r = parseBase64(serializeBase64(d));
        if (!r || *r != d) rep.violation(u"base64-roundtrip"_s, u"base64"_s, { { "len", len } });
    }
    // date-times: with and without milliseconds, offsets, years 1..9999
    for (int i = 0; i < 40000; i++) {
        int year = (i % 7 == 0) ? int(1 + rng() % 9999) : int(1970 + rng() % 130);
        QDate date(year, 1 + int(rng() % 12), 1 + int(rng() % 28));
        QTime time(int(rng() % 24), int(rng() % 60), int(rng() % 60), (i % 2) ? int(rng() % 1000) : 0);
        QDateTime dt(date, time, Qt::UTC);
        n++;
        auto s = QXmppUtils::datetimeToString(dt);
        auto back = QXmppUtils::datetimeFromString(s);
        if (!back.isValid() || back.toUTC() != dt) {
            rep.violation(time.msec() ? u"datetime-roundtrip-msec"_s : u"datetime-roundtrip"_s, u"datetime"_s, { { "string", s }, { "back", back.toUTC().toString(Qt::ISODateWithMs) }, { "year", year } });
        }
    }
    for (int secs = -14 * 3600; secs <= 14 * 3600; secs += 60) {
        n++;
        auto s = QXmppUtils::timezoneOffsetToString(secs);
        if (QXmppUtils::timezoneOffsetFromString(s) != secs) rep.violation(u"tzo-roundtrip"_s, u"tzo"_s, { { "secs", secs }, { "string", s } });
    }
    QJsonObject sum;
    sum["summary"] = true;
    sum["evaluations"] = double(n);
    sum["violations"] = double(rep.violations);
    emitJson(sum);
}

int main(int argc, char **argv)
{
    QCoreApplication app(argc, argv);
    signal(SIGALRM, onAlarm);
#if defined(__SANITIZE_ADDRESS__)
    __sanitizer_set_death_callback(onSanitizerDeath);
#endif
    if (argc < 2) return 3;
    const QByteArray mode = argv[1];
    if (mode == "list") {
        for (auto &e : buildRegistry()) printf("%s %d\n", e.name.toUtf8().constData(), e.hasCheck ? 1 : 0);
        return 0;
    }
    if (mode == "c02" && argc >= 6) {
        runC02(argc, argv);
        return 0;
    }
    if (mode == "c01doc" && argc >= 7) {
        runC01Doc(argc, argv);
        return 0;
    }
    if (mode == "emit" && argc >= 6) {
        runEmit(argc, argv);
        return 0;
    }
    if (mode == "scalars") {
        runScalars();
        return 0;
    }
    return 3;
}
