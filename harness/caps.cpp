// C20 harness: QXmppDiscoveryIq::verificationString() for info sets built through setters or parsed from XML
#include "common.h"

#include "QXmppDataForm.h"
#include "QXmppDiscoveryIq.h"

#include <QCoreApplication>
#include <iostream>
#include <string>

static QXmppDataForm::Field::Type fieldType(const QString &t)
{
    using F = QXmppDataForm::Field;
    if (t == u"hidden") return F::HiddenField;
    if (t == u"text-multi") return F::TextMultiField;
    if (t == u"list-multi") return F::ListMultiField;
    if (t == u"list-single") return F::ListSingleField;
    if (t == u"jid-multi") return F::JidMultiField;
    if (t == u"boolean") return F::BooleanField;
    return F::TextSingleField;
}

int main(int argc, char **argv)
{
    QCoreApplication app(argc, argv);
    std::string line;
    while (std::getline(std::cin, line)) {
        if (line.empty()) continue;
        auto in = QJsonDocument::fromJson(QByteArray::fromStdString(line)).object();
        QJsonObject out;
        out["n"] = in["n"];
        printf("BEGIN %d\n", in["n"].toInt());
        fflush(stdout);
        QXmppDiscoveryIq iq;
        if (in.contains("xml")) {
            QDomDocument doc;
            if (!doc.setContent(in["xml"].toString().toUtf8(), true)) {
                out["bad_input"] = true;
                emitJson(out);
                continue;
            }
            iq.parse(doc.documentElement());
        } else {
            QList<QXmppDiscoveryIq::Identity> ids;
            for (auto v : in["identities"].toArray()) {
                auto o = v.toObject();
                QXmppDiscoveryIq::Identity id;
                id.setCategory(o["category"].toString());
                id.setType(o["type"].toString());
                id.setLanguage(o["lang"].toString());
                id.setName(o["name"].toString());
                ids << id;
            }
            iq.setIdentities(ids);
            QStringList feats;
            for (auto v : in["features"].toArray()) feats << v.toString();
            iq.setFeatures(feats);
            if (in.contains("form")) {
                auto f = in["form"].toObject();
                QXmppDataForm form;
                form.setType(QXmppDataForm::Result);
                QList<QXmppDataForm::Field> fields;
                for (auto v : f["fields"].toArray()) {
                    auto fo = v.toObject();
                    QXmppDataForm::Field field;
                    field.setKey(fo["var"].toString());
                    field.setType(fieldType(fo["type"].toString()));
                    QStringList vals;
                    for (auto x : fo["values"].toArray()) vals << x.toString();
                    if (field.type() == QXmppDataForm::Field::TextMultiField || field.type() == QXmppDataForm::Field::ListMultiField || field.type() == QXmppDataForm::Field::JidMultiField)
                        field.setValue(vals);
                    else
                        field.setValue(vals.value(0));
                    fields << field;
                }
                form.setFields(fields);
                iq.setForm(form);
            }
        }
        out["ver"] = QString::fromLatin1(iq.verificationString().toBase64());
        emitJson(out);
    }
    return 0;
}
