// C05/C06 monitor harness: SaslManager / Sasl2Manager / QXmppSaslClient behind a mock SendDataInterface.
#include "QXmppConfiguration.h"
#include "QXmppLogger.h"
#include "QXmppSasl2UserAgent.h"
#include "QXmppSaslManager_p.h"
#include "QXmppSasl_p.h"
#include "QXmppUtils_p.h"
#include "XmppSocket.h"
#include "common.h"

#include <QCoreApplication>
#include <QDomDocument>
#include <QJsonArray>
#include <QJsonDocument>
#include <QJsonObject>
#include <QUuid>
#include <cstdio>
#include <iostream>
#include <random>
#include <string>

using namespace QXmpp;
using namespace QXmpp::Private;

struct MockSocket : SendDataInterface {
    QList<QByteArray> sent;
    bool sendData(const QByteArray &d) override
    {
        sent << d;
        return true;
    }
};

struct Loggable : QXmppLoggable {
    Loggable() : QXmppLoggable(nullptr) { }
};

static QDomElement toDom(const QByteArray &xml, QDomDocument &doc)
{
    doc.setContent(xml, true);
    return doc.documentElement();
}

static std::optional<HtToken> makeToken(const QString &mech, const QString &secret)
{
    auto m = SaslHtMechanism::fromString(mech);
    if (!m) return {};
    return HtToken { *m, secret, QDateTime() };
}

static void configure(QXmppConfiguration &config, const QJsonObject &in)
{
    config.setUser(in["user"].toString(u"alice"_s));
    config.setDomain(in["domain"].toString(u"example.org"_s));
    config.setPassword(in["password"].toString());
    QList<QString> disabled;
    for (auto v : in["disabled"].toArray()) disabled << v.toString();
    config.setDisabledSaslMechanisms(disabled);
    config.setSaslAuthMechanism(in["preferred"].toString());
    if (in.contains("token")) {
        auto t = in["token"].toObject();
        config.credentialData().htToken = makeToken(t["mech"].toString(), t["secret"].toString());
    }
    if (in.contains("facebook")) {
        config.setFacebookAccessToken(in["facebook"].toString());
        config.setFacebookAppId(u"app"_s);
    }
    if (in.contains("google")) config.setGoogleAccessToken(in["google"].toString());
    if (in.contains("windowslive")) config.setWindowsLiveAccessToken(in["windowslive"].toString());
    if (in["fast"].toBool(false)) {
        config.setUseFastTokenAuthentication(true);
        config.setSasl2UserAgent(QXmppSasl2UserAgent(QUuid::fromString(u"d4565fa7-4d72-4749-b3d3-740edbf87770"_s), u"QXmpp"_s, u"verif"_s));
    } else {
        config.setUseFastTokenAuthentication(in["useFast"].toBool(false));
        config.setSasl2UserAgent(std::nullopt);
    }
}

static QString errName(AuthenticationError::Type t)
{
    switch (t) {
    case AuthenticationError::NotAuthorized: return u"NotAuthorized"_s;
    case AuthenticationError::AccountDisabled: return u"AccountDisabled"_s;
    case AuthenticationError::CredentialsExpired: return u"CredentialsExpired"_s;
    case AuthenticationError::EncryptionRequired: return u"EncryptionRequired"_s;
    case AuthenticationError::MechanismMismatch: return u"MechanismMismatch"_s;
    case AuthenticationError::ProcessingError: return u"ProcessingError"_s;
    case AuthenticationError::RequiredTasks: return u"RequiredTasks"_s;
    }
    return u"?"_s;
}

// runs one authentication start; returns mechanism attribute of the first element sent ("" if nothing), error name or ""
struct StartResult {
    QList<QByteArray> sent;
    QString error;    // "" = pending/ok
    bool finished = false;
    bool success = false;
};

template<typename Task>
static void observe(Task &task, StartResult &r, QObject *ctx)
{
    task.then(ctx, [&r](auto &&value) {
        r.finished = true;
        using V = std::decay_t<decltype(value)>;
        if (std::holds_alternative<std::variant_alternative_t<1, V>>(value)) {
            r.error = errName(std::get<1>(value).second.type);
        } else {
            r.success = true;
        }
    });
}

static QString mechOf(const QList<QByteArray> &sent)
{
    if (sent.isEmpty()) return {};
    QDomDocument doc;
    auto el = toDom(sent.first(), doc);
    return el.tagName() + u"|"_s + el.attribute(u"mechanism"_s) + u"|"_s + (el.firstChildElement(u"fast"_s).isNull() ? u""_s : u"fast"_s);
}

int main(int argc, char **argv)
{
    QCoreApplication app(argc, argv);
    std::string line;
    Loggable loggable;
    QObject ctx;
    while (std::getline(std::cin, line)) {
        if (line.empty()) continue;
        auto in = QJsonDocument::fromJson(QByteArray::fromStdString(line)).object();
        const QString op = in["op"].toString();
        QJsonObject out;
        out["n"] = in["n"];
        printf("BEGIN %d\n", in["n"].toInt());
        fflush(stdout);
        if (op == "choose") {
            // one mechanism negotiation through the real manager
            QXmppConfiguration config;
            configure(config, in);
            MockSocket sock;
            StartResult r;
            QList<QString> offered;
            for (auto v : in["offered"].toArray()) offered << v.toString();
            if (in["sasl2"].toBool()) {
                Sasl2::StreamFeature feature;
                feature.mechanisms = offered;
                if (in.contains("fastOffered")) {
                    FastFeature ff;
                    for (auto v : in["fastOffered"].toArray()) ff.mechanisms.push_back(v.toString());
                    feature.fast = ff;
                }
                Sasl2Manager mgr(&sock);
                auto task = mgr.authenticate(Sasl2::Authenticate(), config, feature, &loggable);
                observe(task, r, &ctx);
            } else {
                SaslManager mgr(&sock);
                auto task = mgr.authenticate(config, offered, &loggable);
                observe(task, r, &ctx);
            }
            out["first"] = mechOf(sock.sent);
            out["nsent"] = sock.sent.size();
            out["error"] = r.error;
        } else if (op == "range") {
            // exhaustive slice: for offered mask in [from,to) x disabledMask x preferred x cred state; result one char per case
            QStringList universe, disablable;
            for (auto v : in["universe"].toArray()) universe << v.toString();
            for (auto v : in["disablable"].toArray()) disablable << v.toString();
            const auto creds = in["creds"].toArray();
            const bool sasl2 = in["sasl2"].toBool();
            const bool fast = in["fast"].toBool();
            std::mt19937_64 rng(quint64(in["seed"].toDouble()));
            QByteArray res;
            for (int om = in["from"].toInt(); om < in["to"].toInt(); om++) {
                for (int dm = 0; dm < (1 << disablable.size()); dm++) {
                    QList<QString> disabled;
                    for (int b = 0; b < disablable.size(); b++) if (dm & (1 << b)) disabled << disablable[b];
                    for (int pref = 0; pref <= universe.size(); pref++) {
                        for (int c = 0; c < creds.size(); c++) {
                            QXmppConfiguration config;
                            QJsonObject cj = creds[c].toObject();
                            cj["fast"] = fast;
                            configure(config, cj);
                            config.setDisabledSaslMechanisms(disabled);
                            config.setSaslAuthMechanism(pref ? universe[pref - 1] : QString());
                            QList<QString> offered, fastOffered;
                            for (int b = 0; b < universe.size(); b++) {
                                if (om & (1 << b)) {
                                    if (sasl2 && universe[b].startsWith(u"HT-")) fastOffered << universe[b];
                                    else offered << universe[b];
                                }
                            }
                            std::shuffle(offered.begin(), offered.end(), rng);
                            std::shuffle(fastOffered.begin(), fastOffered.end(), rng);
                            MockSocket sock;
                            StartResult r;
                            if (sasl2) {
                                Sasl2::StreamFeature feature;
                                feature.mechanisms = offered;
                                FastFeature ff;
                                for (auto &m : fastOffered) ff.mechanisms.push_back(m);
                                feature.fast = ff;
                                Sasl2Manager mgr(&sock);
                                auto task = mgr.authenticate(Sasl2::Authenticate(), config, feature, &loggable);
                                observe(task, r, &ctx);
                            } else {
                                SaslManager mgr(&sock);
                                auto task = mgr.authenticate(config, offered, &loggable);
                                observe(task, r, &ctx);
                            }
                            char code = '?';
                            if (sock.sent.isEmpty()) {
                                code = r.error == u"MechanismMismatch" ? '-' : '!';
                            } else {
                                QDomDocument doc;
                                auto el = toDom(sock.sent.first(), doc);
                                int idx = universe.indexOf(el.attribute(u"mechanism"_s));
                                code = idx >= 0 ? char('A' + idx) : '#';
                                if (sock.sent.size() != 1) code = '+';
                            }
                            res.append(code);
                        }
                    }
                }
            }
            out["res"] = QString::fromLatin1(res);
        } else if (op == "exchange") {
            // raw mechanism object: feed challenges, return responses (base64) or null
            QXmppSaslDigestMd5::setNonce(QByteArray::fromBase64(in["nonce"].toString().toLatin1()));
            auto client = QXmppSaslClient::create(in["mech"].toString());
            QJsonArray resp;
            if (!client) {
                out["nomech"] = true;
            } else {
                client->setUsername(in["user"].toString());
                client->setHost(in["host"].toString());
                client->setServiceType(u"xmpp"_s);
                Credentials cr;
                cr.password = in["password"].toString();
                if (in.contains("token")) {
                    auto t = in["token"].toObject();
                    cr.htToken = makeToken(t["mech"].toString(), t["secret"].toString());
                }
                client->setCredentials(cr);
                for (auto v : in["steps"].toArray()) {
                    auto r = client->respond(QByteArray::fromBase64(v.toString().toLatin1()));
                    if (r) resp.append(QString::fromLatin1(r->toBase64()));
                    else resp.append(QJsonValue());
                }
            }
            QXmppSaslDigestMd5::setNonce({});
            out["resp"] = resp;
        } else if (op == "manager") {
            // whole manager: authenticate, then feed server elements; report sent elements and the final result
            QXmppSaslDigestMd5::setNonce(QByteArray::fromBase64(in["nonce"].toString().toLatin1()));
            QXmppConfiguration config;
            configure(config, in);
            MockSocket sock;
            StartResult r;
            QList<QString> offered;
            for (auto v : in["offered"].toArray()) offered << v.toString();
            QJsonArray codes;
            auto feed = [&](auto &mgr) {
                for (auto v : in["server"].toArray()) {
                    QDomDocument doc;
                    auto el = toDom(v.toString().toUtf8(), doc);
                    codes.append(int(mgr.handleElement(el)));
                }
            };
            if (in["sasl2"].toBool()) {
                Sasl2::StreamFeature feature;
                feature.mechanisms = offered;
                Sasl2Manager mgr(&sock);
                auto task = mgr.authenticate(Sasl2::Authenticate(), config, feature, &loggable);
                observe(task, r, &ctx);
                feed(mgr);
            } else {
                SaslManager mgr(&sock);
                auto task = mgr.authenticate(config, offered, &loggable);
                observe(task, r, &ctx);
                feed(mgr);
            }
            QXmppSaslDigestMd5::setNonce({});
            QJsonArray sent;
            for (auto &s : sock.sent) sent.append(QString::fromUtf8(s));
            out["sent"] = sent;
            out["codes"] = codes;
            out["finished"] = r.finished;
            out["success"] = r.success;
            out["error"] = r.error;
        }
        printf("%s\n", QJsonDocument(out).toJson(QJsonDocument::Compact).constData());
        fflush(stdout);
    }
    return 0;
}
