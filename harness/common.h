// shared helpers for the monitor harnesses
#pragma once
#include "StringLiterals.h"

#include <QByteArray>
#include <QDomDocument>
#include <QJsonArray>
#include <QJsonDocument>
#include <QJsonObject>
#include <QString>
#include <QXmlStreamWriter>
#include <cstdio>

template<typename T>
static QByteArray toXmlBytes(const T &t)
{
    QByteArray out;
    QXmlStreamWriter w(&out);
    t.toXml(&w);
    return out;
}

static inline void emitJson(const QJsonObject &o)
{
    printf("%s\n", QJsonDocument(o).toJson(QJsonDocument::Compact).constData());
    fflush(stdout);
}
