// C14 monitor harness: QXmppStunMessage encode/decode and the HMAC/CRC helpers, driven by JSON lines on stdin.
#include "QXmppStun.h"
#include "QXmppUtils.h"

#include <QCoreApplication>
#include <QHostAddress>
#include <QJsonArray>
#include <QJsonDocument>
#include <QJsonObject>
#include <cstdio>
#include <iostream>
#include <random>
#include <string>

static QByteArray g_current;  // input being decoded, printed by the ASan error hook
extern "C" void __asan_on_error()
{
    fprintf(stdout, "{\"crash_input\":\"%s\"}\n", g_current.toHex().constData());
    fflush(stdout);
}

static QByteArray unhex(const QJsonValue &v) { return QByteArray::fromHex(v.toString().toLatin1()); }
static QString hex(const QByteArray &b) { return QString::fromLatin1(b.toHex()); }

static quint32 crc32_ref(const QByteArray &in)
{
    static quint32 table[256];
    static bool init = false;
    if (!init) {
        for (quint32 i = 0; i < 256; i++) {
            quint32 c = i;
            for (int k = 0; k < 8; k++) c = (c & 1) ? (0xedb88320u ^ (c >> 1)) : (c >> 1);
            table[i] = c;
        }
        init = true;
    }
    quint32 c = 0xffffffffu;
    for (char ch : in) c = table[(c ^ quint8(ch)) & 0xff] ^ (c >> 8);
    return c ^ 0xffffffffu;
}

static void setAddr(const QJsonObject &m, const char *name, QHostAddress &host, quint16 &port)
{
    if (m.contains(QLatin1String(name))) {
        auto o = m[QLatin1String(name)].toObject();
        host = QHostAddress(o["host"].toString());
        port = quint16(o["port"].toInt());
    }
}
static QJsonObject addr(const QHostAddress &h, quint16 p)
{
    QJsonObject o;
    o["host"] = h.isNull() ? QString() : h.toString();
    o["port"] = int(p);
    return o;
}

static void build(QXmppStunMessage &msg, const QJsonObject &m)
{
    msg.setType(quint16(m["type"].toInt()));
    if (m.contains("cookie")) msg.setCookie(quint32(m["cookie"].toDouble()));
    msg.setId(unhex(m["id"]));
    if (m.contains("changeRequest")) msg.setChangeRequest(quint32(m["changeRequest"].toDouble()));
    if (m.contains("channelNumber")) msg.setChannelNumber(quint16(m["channelNumber"].toInt()));
    if (m.contains("data")) msg.setData(unhex(m["data"]));
    if (m.contains("lifetime")) msg.setLifetime(quint32(m["lifetime"].toDouble()));
    if (m.contains("nonce")) msg.setNonce(unhex(m["nonce"]));
    if (m.contains("priority")) msg.setPriority(quint32(m["priority"].toDouble()));
    if (m.contains("realm")) msg.setRealm(m["realm"].toString());
    if (m.contains("reservationToken")) msg.setReservationToken(unhex(m["reservationToken"]));
    if (m.contains("requestedTransport")) msg.setRequestedTransport(quint8(m["requestedTransport"].toInt()));
    if (m.contains("software")) msg.setSoftware(m["software"].toString());
    if (m.contains("username")) msg.setUsername(m["username"].toString());
    if (m.contains("errorCode")) msg.errorCode = m["errorCode"].toInt();
    if (m.contains("errorPhrase")) msg.errorPhrase = m["errorPhrase"].toString();
    if (m.contains("iceControlling")) msg.iceControlling = unhex(m["iceControlling"]);
    if (m.contains("iceControlled")) msg.iceControlled = unhex(m["iceControlled"]);
    if (m.contains("useCandidate")) msg.useCandidate = m["useCandidate"].toBool();
    setAddr(m, "mapped", msg.mappedHost, msg.mappedPort);
    setAddr(m, "changed", msg.changedHost, msg.changedPort);
    setAddr(m, "other", msg.otherHost, msg.otherPort);
    setAddr(m, "source", msg.sourceHost, msg.sourcePort);
    setAddr(m, "xorMapped", msg.xorMappedHost, msg.xorMappedPort);
    setAddr(m, "xorPeer", msg.xorPeerHost, msg.xorPeerPort);
    setAddr(m, "xorRelayed", msg.xorRelayedHost, msg.xorRelayedPort);
}

static QJsonObject dump(const QXmppStunMessage &msg)
{
    QJsonObject o;
    o["type"] = int(msg.type());
    o["cookie"] = double(msg.cookie());
    o["id"] = hex(msg.id());
    o["changeRequest"] = double(msg.changeRequest());
    o["channelNumber"] = int(msg.channelNumber());
    o["data"] = hex(msg.data());
    o["lifetime"] = double(msg.lifetime());
    o["nonce"] = hex(msg.nonce());
    o["priority"] = double(msg.priority());
    o["realm"] = msg.realm();
    o["reservationToken"] = hex(msg.reservationToken());
    o["requestedTransport"] = int(msg.requestedTransport());
    o["software"] = msg.software();
    o["username"] = msg.username();
    o["errorCode"] = msg.errorCode;
    o["errorPhrase"] = msg.errorPhrase;
    o["iceControlling"] = hex(msg.iceControlling);
    o["iceControlled"] = hex(msg.iceControlled);
    o["useCandidate"] = msg.useCandidate;
    o["mapped"] = addr(msg.mappedHost, msg.mappedPort);
    o["changed"] = addr(msg.changedHost, msg.changedPort);
    o["other"] = addr(msg.otherHost, msg.otherPort);
    o["source"] = addr(msg.sourceHost, msg.sourcePort);
    o["xorMapped"] = addr(msg.xorMappedHost, msg.xorMappedPort);
    o["xorPeer"] = addr(msg.xorPeerHost, msg.xorPeerPort);
    o["xorRelayed"] = addr(msg.xorRelayedHost, msg.xorRelayedPort);
    return o;
}

static bool decodeFresh(const QByteArray &buf, const QByteArray &key, QJsonObject *out = nullptr)
{
    g_current = buf;
    QXmppStunMessage m;
    QStringList errors;
    bool ok = m.decode(buf, key, &errors);
    if (out && ok) *out = dump(m);
    if (ok) (void)m.toString();
    quint32 cookie;
    QByteArray id;
    (void)QXmppStunMessage::peekType(buf, cookie, id);
    return ok;
}

static void setLen(QByteArray &b, int len)
{
    b[2] = char((len >> 8) & 0xff);
    b[3] = char(len & 0xff);
}

int main(int argc, char **argv)
{
    QCoreApplication app(argc, argv);
    std::string line;
    while (std::getline(std::cin, line)) {
        if (line.empty()) continue;
        auto in = QJsonDocument::fromJson(QByteArray::fromStdString(line)).object();
        const QString op = in["op"].toString();
        QJsonObject out;
        out["n"] = in["n"];
        printf("BEGIN %d\n", in["n"].toInt());
        fflush(stdout);
        if (op == "fresh") {
            out["dec"] = dump(QXmppStunMessage());
        } else if (op == "rt") {
            QXmppStunMessage msg;
            build(msg, in["msg"].toObject());
            out["built"] = dump(msg);
            const QByteArray key = unhex(in["key"]);
            const QByteArray enc = msg.encode(key, in["fp"].toBool());
            out["enc"] = hex(enc);
            QJsonObject dec;
            out["ok"] = decodeFresh(enc, key, &dec);
            out["dec"] = dec;
            // decoding without any key must also work (integrity is then not checked)
            out["ok_nokey"] = decodeFresh(enc, QByteArray());
        } else if (op == "dec") {
            QJsonObject dec;
            out["ok"] = decodeFresh(unhex(in["buf"]), unhex(in["key"]), &dec);
            out["dec"] = dec;
        } else if (op == "hmac") {
            const QByteArray key = unhex(in["key"]), text = unhex(in["text"]);
            out["sha1"] = hex(QXmppUtils::generateHmacSha1(key, text));
            out["md5"] = hex(QXmppUtils::generateHmacMd5(key, text));
        } else if (op == "crc") {
            out["crc"] = double(QXmppUtils::generateCrc32(unhex(in["text"])));
        } else if (op == "flips") {
            // every single-bit flip of buf; optional: re-compute a trailing FINGERPRINT with an independent CRC
            QByteArray buf = unhex(in["buf"]);
            const QByteArray key = unhex(in["key"]);
            const bool refp = in["refp"].toBool();
            QJsonArray accepted;
            const int nbits = buf.size() * 8;
            for (int bit = 0; bit < nbits; bit++) {
                QByteArray b = buf;
                b[bit / 8] = char(b[bit / 8] ^ (1 << (7 - bit % 8)));
                if (refp && bit / 8 < buf.size() - 8) {
                    QByteArray pre = b.left(b.size() - 8);
                    // length field as transmitted covers the fingerprint; the flip may have hit it, keep what is there
                    quint32 fp = crc32_ref(pre) ^ 0x5354554eu;
                    b[b.size() - 4] = char(fp >> 24);
                    b[b.size() - 3] = char(fp >> 16);
                    b[b.size() - 2] = char(fp >> 8);
                    b[b.size() - 1] = char(fp);
                }
                if (decodeFresh(b, key)) accepted.append(bit);
            }
            out["accepted"] = accepted;
            out["nbits"] = nbits;
        } else if (op == "fuzz") {
            // arbitrary / structure-aware byte strings: only safety is judged
            std::mt19937_64 rng(quint64(in["seed"].toDouble()));
            const int count = in["count"].toInt();
            const QByteArray key = unhex(in["key"]);
            int accepted = 0, structured = 0;
            static const quint16 types[] = { 0x0001, 0x0003, 0x0004, 0x0005, 0x0006, 0x0008, 0x0009, 0x000c, 0x000d, 0x0012, 0x0013, 0x0014, 0x0015, 0x0016,
                                             0x0019, 0x0020, 0x0022, 0x0024, 0x0025, 0x8022, 0x8028, 0x8029, 0x802a, 0x802c, 0x7777 };
            for (int i = 0; i < count; i++) {
                QByteArray b;
                int mode = rng() % 4;
                if (mode == 0) {
                    int len = rng() % 96;
                    for (int k = 0; k < len; k++) b.append(char(rng()));
                } else {
                    structured++;
                    b.resize(20);
                    for (int k = 0; k < 20; k++) b[k] = char(rng());
                    b[0] = char(rng() % 2);  // plausible type
                    b[4] = 0x21; b[5] = 0x12; b[6] = char(0xa4); b[7] = 0x42;
                    int nattr = rng() % 6;
                    for (int a = 0; a < nattr; a++) {
                        quint16 t = (rng() % 8) ? types[rng() % (sizeof(types) / sizeof(types[0]))] : quint16(rng());
                        int real = rng() % 40;
                        int claimed = real;
                        int lie = rng() % 6;
                        if (lie == 0) claimed = rng() % 65536;
                        else if (lie == 1) claimed = real + 1 + rng() % 8;
                        else if (lie == 2 && real) claimed = rng() % real;
                        static const int natural[] = { 0, 4, 8, 20 };
                        if (rng() % 2) real = claimed = natural[rng() % 4];
                        b.append(char(t >> 8)); b.append(char(t));
                        b.append(char(claimed >> 8)); b.append(char(claimed));
                        for (int k = 0; k < real; k++) b.append(char(rng()));
                        if (mode != 3) while (b.size() % 4) b.append(char(0));
                    }
                    if (mode != 2 || rng() % 2) setLen(b, b.size() - 20);
                }
                if (decodeFresh(b, (rng() % 2) ? key : QByteArray())) accepted++;
            }
            out["accepted"] = accepted;
            out["structured"] = structured;
        }
        g_current.clear();
        printf("%s\n", QJsonDocument(out).toJson(QJsonDocument::Compact).constData());
        fflush(stdout);
    }
    return 0;
}
