// C18 harness: QXmppAtmManager + memory storage driven through public entry points; full state snapshot after every step.
// stdin: one JSON history per line {"n":..,"policy":"toakafa|none","own":"alice@x","resource":"dev1","initial":[[owner,key,level]],"keys":[all key ids],"owners":[...],"steps":[...]}
#include "common.h"

#include "QXmppAtmManager.h"
#include "QXmppAtmTrustMemoryStorage.h"
#include "QXmppClient.h"
#include "QXmppConfiguration.h"
#include "QXmppE2eeMetadata.h"
#include "QXmppClientExtension.h"
#include "QXmppMessage.h"
#include "QXmppTask.h"
#include "QXmppTrustMessageElement.h"
#include "QXmppTrustMessageKeyOwner.h"

#include <QCoreApplication>
#include <iostream>
#include <string>

using namespace QXmpp;
// how an end-to-end encryption extension hands a decrypted message back to the client
struct Injector : QXmppClientExtension {
    using QXmppClientExtension::injectMessage;
};
static const QString ENC = u"urn:xmpp:omemo:2"_s;
static const QString NS_ATM = u"urn:xmpp:atm:1"_s;

template<typename T>
static T waitFor(QXmppTask<T> task)
{
    // the memory storage finishes every task synchronously
    if (!task.isFinished()) {
        for (int i = 0; i < 1000 && !task.isFinished(); i++) QCoreApplication::processEvents();
    }
    if constexpr (!std::is_void_v<T>) {
        return task.takeResult();
    }
}

static QJsonObject snapshot(QXmppAtmManager &mgr, QXmppAtmTrustMemoryStorage &storage, const QStringList &owners, const QList<QByteArray> &keys)
{
    QJsonObject s;
    QJsonObject levels;
    auto all = waitFor(mgr.keys(ENC, owners));
    for (auto o = all.begin(); o != all.end(); ++o) {
        for (auto k = o.value().begin(); k != o.value().end(); ++k) {
            levels[o.key() + u"|"_s + QString::fromLatin1(k.key())] = int(k.value());
        }
    }
    s["levels"] = levels;
    QJsonObject postponed;
    for (const auto &sender : keys) {
        auto p = waitFor(storage.keysForPostponedTrustDecisions(ENC, { sender }));
        QJsonArray arr;
        for (bool trust : { true, false }) {
            const auto m = p.value(trust);
            for (auto it = m.begin(); it != m.end(); ++it) {
                QJsonArray e;
                e.append(it.key());
                e.append(QString::fromLatin1(it.value()));
                e.append(trust);
                arr.append(e);
            }
        }
        if (!arr.isEmpty()) postponed[QString::fromLatin1(sender)] = arr;
    }
    s["postponed"] = postponed;
    return s;
}

int main(int argc, char **argv)
{
    QCoreApplication app(argc, argv);
    std::string line;
    while (std::getline(std::cin, line)) {
        if (line.empty()) continue;
        auto in = QJsonDocument::fromJson(QByteArray::fromStdString(line)).object();
        QJsonObject out;
        out["n"] = in["n"];
        printf("BEGIN %d\n", in["n"].toInt());
        fflush(stdout);
        {
            QXmppClient client;
            client.configuration().setJid(in["own"].toString() + u"/"_s + in["resource"].toString());
            auto storage = std::make_unique<QXmppAtmTrustMemoryStorage>();
            auto *mgr = new QXmppAtmManager(storage.get());
            client.addExtension(mgr);
            auto *injector = new Injector;
            client.addExtension(injector);
            waitFor(mgr->setSecurityPolicy(ENC, in["policy"].toString() == u"toakafa" ? Toakafa : NoSecurityPolicy));
            for (auto v : in["initial"].toArray()) {
                auto a = v.toArray();
                waitFor(mgr->addKeys(ENC, a[0].toString(), { a[1].toString().toLatin1() }, TrustLevel(a[2].toInt())));
            }
            QStringList owners;
            for (auto v : in["owners"].toArray()) owners << v.toString();
            QList<QByteArray> keys;
            for (auto v : in["keys"].toArray()) keys << v.toString().toLatin1();
            QJsonArray snaps;
            snaps.append(snapshot(*mgr, *storage, owners, keys));
            for (auto v : in["steps"].toArray()) {
                auto st = v.toObject();
                auto toKeys = [](const QJsonValue &arr) {
                    QList<QByteArray> l;
                    for (auto x : arr.toArray()) l << x.toString().toLatin1();
                    return l;
                };
                if (st["op"].toString() == u"manual") {
                    waitFor(mgr->makeTrustDecisions(ENC, st["owner"].toString(), toKeys(st["auth"]), toKeys(st["distrust"])));
                } else {
                    QXmppMessage msg;
                    msg.setFrom(st["from"].toString());
                    msg.setTo(in["own"].toString());
                    msg.setId(u"m"_s);
                    QXmppTrustMessageElement tm;
                    tm.setUsage(st.contains("usage") ? st["usage"].toString() : NS_ATM);
                    tm.setEncryption(ENC);
                    QList<QXmppTrustMessageKeyOwner> kos;
                    for (auto ov : st["owners"].toArray()) {
                        auto o = ov.toObject();
                        QXmppTrustMessageKeyOwner ko;
                        ko.setJid(o["jid"].toString());
                        ko.setTrustedKeys(toKeys(o["trusted"]));
                        ko.setDistrustedKeys(toKeys(o["distrusted"]));
                        kos << ko;
                    }
                    tm.setKeyOwners(kos);
                    msg.setTrustMessageElement(tm);
                    if (st.contains("senderKey")) {
                        QXmppE2eeMetadata md;
                        md.setSenderKey(st["senderKey"].toString().toLatin1());
                        md.setEncryption(QXmpp::Omemo2);
                        msg.setE2eeMetadata(md);
                    }
                    injector->injectMessage(std::move(msg));
                }
                for (int i = 0; i < 3; i++) QCoreApplication::processEvents();
                snaps.append(snapshot(*mgr, *storage, owners, keys));
            }
            out["snapshots"] = snaps;
        }
        emitJson(out);
    }
    return 0;
}
