// C17 harness: a message is built (parsed in combined mode from assembled XML), serialized in combined / public / sensitive mode
// exactly the way the client's encrypted send path and the OMEMO manager do it, and recovered from the two parts.
#include "common.h"

#include "QXmppMessage.h"

#include <QCoreApplication>
#include <iostream>
#include <string>

static QByteArray serMessage(const QXmppMessage &m, QXmpp::SceMode mode)
{
    QByteArray out;
    QXmlStreamWriter w(&out);
    m.toXml(&w, mode);
    return out;
}

// what QXmppOmemoManager puts into the SCE envelope's <content/>
static QByteArray serSensitive(const QXmppMessage &m)
{
    QByteArray out;
    QXmlStreamWriter w(&out);
    w.writeStartElement(u"content"_s);
    w.writeDefaultNamespace(u"urn:xmpp:sce:1"_s);
    m.serializeExtensions(&w, QXmpp::SceSensitive, u"jabber:client"_s);
    w.writeEndElement();
    return out;
}

int main(int argc, char **argv)
{
    QCoreApplication app(argc, argv);
    std::string line;
    while (std::getline(std::cin, line)) {
        if (line.empty()) continue;
        auto in = QJsonDocument::fromJson(QByteArray::fromStdString(line)).object();
        QJsonObject out;
        out["n"] = in["n"];
        printf("BEGIN %d\n", in["n"].toInt());
        fflush(stdout);
        QDomDocument doc;
        if (!doc.setContent(in["xml"].toString().toUtf8(), true)) {
            out["bad_input"] = true;
            emitJson(out);
            continue;
        }
        QXmppMessage orig;
        orig.parse(doc.documentElement());
        if (in.contains("fallbackBody")) orig.setE2eeFallbackBody(in["fallbackBody"].toString());
        const QByteArray all = serMessage(orig, QXmpp::SceAll);
        const QByteArray pub = serMessage(orig, QXmpp::ScePublic);
        const QByteArray sens = serSensitive(orig);
        out["all"] = QString::fromUtf8(all);
        out["public"] = QString::fromUtf8(pub);
        out["sensitive"] = QString::fromUtf8(sens);
        out["orig_unknown"] = orig.extensions().size();
        // receiver: parse the public part, then the decrypted sensitive part (QXmppClient.cpp / QXmppOmemoManager_p.cpp)
        QDomDocument dp, ds;
        if (dp.setContent(pub, true) && ds.setContent(sens, true)) {
            QXmppMessage rec;
            rec.parse(dp.documentElement(), QXmpp::ScePublic);
            const int unknownAfterPublic = rec.extensions().size();
            rec.parseExtensions(ds.documentElement(), QXmpp::SceSensitive);
            out["rec_all"] = QString::fromUtf8(serMessage(rec, QXmpp::SceAll));
            out["rec_public"] = QString::fromUtf8(serMessage(rec, QXmpp::ScePublic));
            out["rec_fallback"] = rec.e2eeFallbackBody();
            out["rec_unknown_public"] = unknownAfterPublic;
            out["rec_unknown"] = rec.extensions().size();
            QJsonArray unk;
            for (const auto &e : rec.extensions()) unk.append(e.tagName() + u"|"_s + e.attribute(u"xmlns"_s));
            out["rec_unknown_names"] = unk;
        } else {
            out["parts_not_wellformed"] = true;
        }
        emitJson(out);
    }
    return 0;
}
