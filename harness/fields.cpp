// C01 layer 1 driver: objects built with the library's own setters (machinery in fields_core.h, field list in fields_part_<n>.h)
// request: {"seed":n, "ns":{tag:namespace,...}, "objs":{...}, "skip":k, "comboRounds":r}  ->  one JSON line per (field, state) / per class (combinations) + a summary line
#pragma GCC diagnostic ignored "-Wdeprecated-declarations"
#include "fields_core.h"
#include "fields_parts.h"   // NPARTS + declarations, generated

int main()
{
    std::string line;
    while (std::getline(std::cin, line)) {
        if (line.empty()) continue;
        auto in = QJsonDocument::fromJson(QByteArray::fromStdString(line)).object();
        printf("BEGIN %d\n", in["n"].toInt());
        fflush(stdout);
        g_ns = in["ns"].toObject();
        g_objs = in["objs"].toObject();
        g_rng.seed(quint64(in["seed"].toDouble(1)));
        g_fields = g_live = g_values = g_fail = 0;
        g_combos = g_comboFails = 0;
        g_skip = in["skip"].toInt(0);
        g_comboRoundsMax = in["comboRounds"].toInt(60);
        RUN_ALL_PARTS
        emitJson(QJsonObject { { "n", in["n"] }, { "summary", true }, { "combinations", g_combos }, { "combination_failures", g_comboFails }, { "fields", g_fields }, { "live_states", g_live }, { "values", g_values }, { "failures", g_fail } });
    }
    return 0;
}
