// C15 harness: two real QXmppIceConnection objects on 127.0.0.1 that talk through a relay the harness controls (loss of chosen
// first transmissions, full datagram log), plus an attacker socket that sends forged datagrams built by the driver.
// Two-phase protocol per case: {"op":"setup",...} -> ports/credentials/candidates; {"op":"run",...} -> observations.
#include "common.h"

#include "QXmppJingleIq.h"
#include "QXmppStun.h"

#include <QCoreApplication>
#include <QElapsedTimer>
#include <QTimer>
#include <QUdpSocket>
#include <iostream>
#include <memory>
#include <set>
#include <string>

struct Side {
    std::unique_ptr<QXmppIceConnection> ice;
    QStringList log;
    QList<QByteArray> received;
    int connectedSignals = 0;
    qint64 connectedAt = -1;
};

struct World {
    Side a, b;
    QUdpSocket stunSrv;   // a STUN server of the harness (own encoder): agents that are given it gather server-reflexive candidates
    int stunRequests = 0;
    QUdpSocket relayA, relayB, attacker;  // relayA faces A (A's view of B's candidate), relayB faces B
    quint16 portA = 0, portB = 0;
    QJsonArray relayLog, attackerRx;
    QElapsedTimer clock;
    std::set<QByteArray> seenTx[2];
    QList<QByteArray> txOrder[2];
    std::set<int> drop[2];
    bool useRelay = true;
    bool autoRespond = false;
    int autoResponses = 0;

    static bool isStun(const QByteArray &d) { return d.size() >= 20 && quint8(d[0]) < 4 && d.mid(4, 4) == QByteArray::fromHex("2112a442"); }

    void forward(int dir, const QByteArray &data)
    {
        // dir 0: A -> B (arrived at relayA, leaves from relayB); dir 1: B -> A
        bool dropped = false;
        if (isStun(data) && (quint8(data[0]) & 0x01) == 0 && (quint8(data[1]) & 0x10) == 0) {
            const QByteArray tid = data.mid(8, 12);
            if (!seenTx[dir].count(tid)) {
                seenTx[dir].insert(tid);
                txOrder[dir] << tid;
                const int idx = txOrder[dir].size() - 1;
                if (drop[dir].count(idx)) dropped = true;  // loss confined to the first transmission of that transaction
            }
        }
        QJsonObject o { { "t", double(clock.elapsed()) }, { "dir", dir }, { "len", data.size() }, { "stun", isStun(data) }, { "dropped", dropped } };
        if (relayLog.size() < 400) relayLog.append(o);
        if (dropped) return;
        if (dir == 0) relayB.writeDatagram(data, QHostAddress::LocalHost, portB);
        else relayA.writeDatagram(data, QHostAddress::LocalHost, portA);
    }
};

static quint16 hostPort(QXmppIceConnection &ice)
{
    for (const auto &c : ice.localCandidates())
        if (c.type() == QXmppJingleCandidate::HostType) return c.port();
    return 0;
}

int main(int argc, char **argv)
{
    QCoreApplication app(argc, argv);
    std::string line;
    std::unique_ptr<World> w;
    while (std::getline(std::cin, line)) {
        if (line.empty()) continue;
        auto in = QJsonDocument::fromJson(QByteArray::fromStdString(line)).object();
        QJsonObject out;
        out["n"] = in["n"];
        printf("BEGIN %d\n", in["n"].toInt());
        fflush(stdout);
        const QString op = in["op"].toString();
        if (op == "setup") {
            w = std::make_unique<World>();
            w->clock.start();
            w->useRelay = in["relay"].toBool(true);
            for (Side *s : { &w->a, &w->b }) {
                s->ice = std::make_unique<QXmppIceConnection>();
                QObject::connect(s->ice.get(), &QXmppLoggable::logMessage, [s](QXmppLogger::MessageType, const QString &text) {
                    if (s->log.size() < 200) s->log << text;
                });
            }
            const bool aControls = in["aControlling"].toBool(true);
            w->a.ice->setIceControlling(aControls);
            w->b.ice->setIceControlling(!aControls);
            w->a.ice->addComponent(1);
            w->b.ice->addComponent(1);
            if (in["stun"].toBool()) {
                World *wq = w.get();
                w->stunSrv.bind(QHostAddress(QHostAddress::LocalHost), quint16(0));
                QObject::connect(&w->stunSrv, &QUdpSocket::readyRead, [wq]() {
                    while (wq->stunSrv.hasPendingDatagrams()) {
                        QByteArray d(int(wq->stunSrv.pendingDatagramSize()), 0);
                        QHostAddress h;
                        quint16 p;
                        wq->stunSrv.readDatagram(d.data(), d.size(), &h, &p);
                        if (!World::isStun(d) || quint8(d[0]) != 0x00 || quint8(d[1]) != 0x01) continue;
                        wq->stunRequests++;
                        // Binding success with XOR-MAPPED-ADDRESS 192.0.2.55:<source port> (a NAT that maps the host address to a public one)
                        QByteArray r = QByteArray::fromHex("0101000c2112a442") + d.mid(8, 12);
                        const quint16 xport = p ^ 0x2112;
                        r += QByteArray::fromHex("00200008" "0001");
                        r += char(xport >> 8);
                        r += char(xport & 0xff);
                        r += QByteArray::fromHex("e112a675");  // 192.0.2.55 ^ 0x2112a442
                        wq->stunSrv.writeDatagram(r, h, p);
                    }
                });
                const QList<QPair<QHostAddress, quint16>> srv { { QHostAddress(QHostAddress::LocalHost), w->stunSrv.localPort() } };
                w->a.ice->setStunServers(srv);
                w->b.ice->setStunServers(srv);
            }
            w->a.ice->bind({ QHostAddress(QHostAddress::LocalHost) });
            w->b.ice->bind({ QHostAddress(QHostAddress::LocalHost) });
            if (in["stun"].toBool()) {
                // candidate gathering is asynchronous: wait until both agents advertise a server-reflexive candidate (or 1.5 s)
                QElapsedTimer tg;
                tg.start();
                auto has = [](QXmppIceConnection &ice) {
                    for (const auto &c : ice.localCandidates())
                        if (c.type() == QXmppJingleCandidate::ServerReflexiveType) return true;
                    return false;
                };
                while (tg.elapsed() < 1500 && !(has(*w->a.ice) && has(*w->b.ice))) QCoreApplication::processEvents(QEventLoop::AllEvents | QEventLoop::WaitForMoreEvents, 5);
            }
            w->portA = hostPort(*w->a.ice);
            w->portB = hostPort(*w->b.ice);
            w->relayA.bind(QHostAddress(QHostAddress::LocalHost), quint16(0));
            w->relayB.bind(QHostAddress(QHostAddress::LocalHost), quint16(0));
            w->attacker.bind(QHostAddress(QHostAddress::LocalHost), quint16(0));
            World *wp = w.get();
            QObject::connect(&w->relayA, &QUdpSocket::readyRead, [wp]() {
                while (wp->relayA.hasPendingDatagrams()) {
                    QByteArray d(int(wp->relayA.pendingDatagramSize()), 0);
                    wp->relayA.readDatagram(d.data(), d.size());
                    wp->forward(0, d);
                }
            });
            QObject::connect(&w->relayB, &QUdpSocket::readyRead, [wp]() {
                while (wp->relayB.hasPendingDatagrams()) {
                    QByteArray d(int(wp->relayB.pendingDatagramSize()), 0);
                    wp->relayB.readDatagram(d.data(), d.size());
                    wp->forward(1, d);
                }
            });
            QObject::connect(&w->attacker, &QUdpSocket::readyRead, [wp]() {
                while (wp->attacker.hasPendingDatagrams()) {
                    QByteArray d(int(wp->attacker.pendingDatagramSize()), 0);
                    QHostAddress h;
                    quint16 p;
                    wp->attacker.readDatagram(d.data(), d.size(), &h, &p);
                    wp->attackerRx.append(QJsonObject { { "t", double(wp->clock.elapsed()) }, { "hex", QString::fromLatin1(d.toHex()) }, { "fromPort", int(p) } });
                    // an attacker that is sent a connectivity check answers it without knowing any password
                    if (wp->autoRespond && World::isStun(d) && (quint8(d[0]) & 0x01) == 0 && (quint8(d[1]) & 0x10) == 0 && wp->autoResponses < 20) {
                        wp->autoResponses++;
                        QByteArray r = QByteArray::fromHex("0101000c2112a442") + d.mid(8, 12);
                        const quint16 xport = p ^ 0x2112;
                        r += QByteArray::fromHex("00200008" "0001");
                        r += char(xport >> 8);
                        r += char(xport & 0xff);
                        r += QByteArray::fromHex("5e12a443");  // 127.0.0.1 ^ cookie
                        wp->attacker.writeDatagram(r, h, p);
                    }
                }
            });
            for (Side *s : { &w->a, &w->b }) {
                QObject::connect(s->ice.get(), &QXmppIceConnection::connected, [s, wp]() {
                    s->connectedSignals++;
                    if (s->connectedAt < 0) s->connectedAt = wp->clock.elapsed();
                });
                QObject::connect(s->ice->component(1), &QXmppIceComponent::datagramReceived, [s](const QByteArray &d) { s->received << d; });
            }
            auto cands = [](QXmppIceConnection &ice) {
                QJsonArray arr;
                for (const auto &c : ice.localCandidates())
                    arr.append(QJsonObject { { "type", int(c.type()) }, { "priority", double(c.priority()) }, { "component", c.component() }, { "host", c.host().toString() }, { "port", int(c.port()) } });
                return arr;
            };
            out["a"] = QJsonObject { { "user", w->a.ice->localUser() }, { "password", w->a.ice->localPassword() }, { "port", int(w->portA) }, { "candidates", cands(*w->a.ice) } };
            out["b"] = QJsonObject { { "user", w->b.ice->localUser() }, { "password", w->b.ice->localPassword() }, { "port", int(w->portB) }, { "candidates", cands(*w->b.ice) } };
            out["attackerPort"] = int(w->attacker.localPort());
            out["stunRequests"] = w->stunRequests;
            out["relayPortSeenByA"] = int(w->relayA.localPort());
            out["relayPortSeenByB"] = int(w->relayB.localPort());
        } else if (op == "run" && w) {
            for (auto v : in["dropAB"].toArray()) w->drop[0].insert(v.toInt());
            for (auto v : in["dropBA"].toArray()) w->drop[1].insert(v.toInt());
            const bool honest = in["honest"].toBool(true);
            w->autoRespond = in["autoRespond"].toString() == u"nointegrity";
            // B (the victim in attack scenarios) always knows the credentials of its peer A
            w->b.ice->setRemoteUser(w->a.ice->localUser());
            w->b.ice->setRemotePassword(w->a.ice->localPassword());
            w->a.ice->setRemoteUser(w->b.ice->localUser());
            w->a.ice->setRemotePassword(w->b.ice->localPassword());
            if (honest) {
                // exchange candidates: each side is told that its peer lives at the relay
                auto relayed = [](QXmppJingleCandidate c, quint16 port) {
                    c.setPort(port);
                    return c;
                };
                auto la = w->a.ice->localCandidates();
                auto lb = w->b.ice->localCandidates();
                if (in["reverseCandidates"].toBool()) {
                    std::reverse(la.begin(), la.end());
                    std::reverse(lb.begin(), lb.end());
                }
                for (const auto &c : lb)
                    if (c.type() == QXmppJingleCandidate::HostType) w->a.ice->addRemoteCandidate(w->useRelay ? relayed(c, w->relayA.localPort()) : c);
                for (const auto &c : la)
                    if (c.type() == QXmppJingleCandidate::HostType) w->b.ice->addRemoteCandidate(w->useRelay ? relayed(c, w->relayB.localPort()) : c);
            }
            // schedule forged packets
            const auto packets = in["packets"].toArray();
            World *wp = w.get();
            auto *victim = in["victim"].toString(u"b"_s) == u"a" ? &w->a : &w->b;
            const quint16 victimPort = victim == &w->a ? w->portA : w->portB;
            int sentForged = 0;
            for (auto v : packets) {
                auto p = v.toObject();
                const QByteArray data = QByteArray::fromHex(p["hex"].toString().toLatin1());
                QTimer::singleShot(p["at"].toInt(0), &app, [wp, data, victimPort, &sentForged]() {
                    wp->attacker.writeDatagram(data, QHostAddress::LocalHost, victimPort);
                    sentForged++;
                });
            }
            const int startAt = in["startAt"].toInt(0);
            QTimer::singleShot(startAt, &app, [wp, honest]() {
                wp->b.ice->connectToHost();
                if (honest) wp->a.ice->connectToHost();
            });
            const int watchdog = in["watchdog"].toInt(8000);
            const int linger = in["linger"].toInt(300);
            QElapsedTimer t;
            t.start();
            qint64 bothAt = -1;
            const int lastPacketAt = [&] {
                int m = 0;
                for (auto v : packets) m = qMax(m, v.toObject()["at"].toInt(0));
                return m;
            }();
            // data after connect
            bool dataSent = false;
            const auto payloads = in["payloads"].toArray();
            while (t.elapsed() < watchdog) {
                QCoreApplication::processEvents(QEventLoop::AllEvents | QEventLoop::WaitForMoreEvents, 5);
                const bool both = w->a.ice->isConnected() && w->b.ice->isConnected();
                if (both && bothAt < 0) bothAt = t.elapsed();
                if (honest && both && !dataSent) {
                    dataSent = true;
                    for (auto v : payloads) {
                        auto p = v.toObject();
                        const QByteArray d = QByteArray::fromHex(p["hex"].toString().toLatin1());
                        if (p["from"].toString() == u"a") w->a.ice->component(1)->sendDatagram(d);
                        else w->b.ice->component(1)->sendDatagram(d);
                    }
                }
                const bool attackDone = t.elapsed() > lastPacketAt + linger;
                if (honest ? (both && attackDone && t.elapsed() > bothAt + linger) : (attackDone && t.elapsed() > startAt + in["minRun"].toInt(700))) break;
            }
            // victim sends application data after everything: where does it go?
            if (in["victimSendsAfter"].toBool()) {
                const QByteArray vp = QByteArray::fromHex(in["victimPayload"].toString().toLatin1());
                victim->ice->component(1)->sendDatagram(vp);
                QElapsedTimer t2;
                t2.start();
                // logical wait: until the honest peer has it (a loaded machine may need much longer than the 150 ms that are enough when idle)
                Side &peer = (victim == &w->b) ? w->a : w->b;
                while (t2.elapsed() < 150 || (honest && t2.elapsed() < 4000 && !peer.received.contains(vp))) QCoreApplication::processEvents(QEventLoop::AllEvents | QEventLoop::WaitForMoreEvents, 5);
            }
            auto side = [&](Side &s) {
                QJsonArray rec, log;
                for (const auto &d : s.received) rec.append(QString::fromLatin1(d.toHex()));
                for (const auto &l : s.log)
                    if (l.contains(u"ICE pair selected") || l.contains(u"Role conflict") || l.contains(u"Bad message") || l.contains(u"Missing message")) log.append(l);
                return QJsonObject { { "connected", s.ice->isConnected() }, { "connectedSignals", s.connectedSignals }, { "connectedAt", double(s.connectedAt) }, { "received", rec }, { "log", log } };
            };
            out["a"] = side(w->a);
            out["b"] = side(w->b);
            out["attackerRx"] = w->attackerRx;
            out["relayLog"] = w->relayLog;
            out["relayTx"] = QJsonArray { w->txOrder[0].size(), w->txOrder[1].size() };
            out["forgedSent"] = sentForged;
            out["autoResponses"] = w->autoResponses;
            out["timedOut"] = t.elapsed() >= watchdog;
            out["elapsed"] = double(t.elapsed());
            w.reset();
        }
        emitJson(out);
    }
    return 0;
}
