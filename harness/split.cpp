// C03 harness: a byte stream is delivered to the real XmppSocket over a loopback TCP connection in given chunks;
// the sequence of stream-open / stanza / stream-close events is reported per chunking.
#include "common.h"

#include "XmppSocket.h"

#include <QCoreApplication>
#include <QElapsedTimer>
#include <QSslSocket>
#include <QTcpServer>
#include <QTcpSocket>
#include <iostream>
#include <string>

using namespace QXmpp::Private;

static QString canonEl(const QDomElement &el)
{
    QString out = u'{' + el.namespaceURI() + u'}' + (el.localName().isEmpty() ? el.tagName() : el.localName());
    QStringList attrs;
    const auto map = el.attributes();
    for (int i = 0; i < map.count(); i++) {
        auto a = map.item(i).toAttr();
        if (a.name() == u"xmlns" || a.name().startsWith(u"xmlns:")) continue;
        attrs << a.name() + u'=' + a.value();
    }
    attrs.sort();
    out += u'[' + attrs.join(u'\x1f') + u']';
    for (auto n = el.firstChild(); !n.isNull(); n = n.nextSibling()) {
        if (n.isElement()) out += u'(' + canonEl(n.toElement()) + u')';
        else if (n.isText() || n.isCDATASection()) out += u'"' + n.nodeValue() + u'"';
    }
    return out;
}

struct Run {
    QJsonArray events;
    QJsonArray reads;  // observed read sizes
    bool timedOut = false;
};

static bool spin(std::function<bool()> done, int ms = 5000)
{
    QElapsedTimer t;
    t.start();
    while (!done()) {
        QCoreApplication::processEvents(QEventLoop::AllEvents, 5);
        if (t.elapsed() > ms) return false;
    }
    return true;
}

static Run deliver(QTcpServer &server, const QByteArray &stream, const QList<int> &cuts)
{
    Run run;
    auto *sock = new QSslSocket;
    qint64 consumed = 0;
    // our probe is connected first, so it sees bytesAvailable() before XmppSocket's handler drains the socket
    QObject::connect(sock, &QSslSocket::readyRead, [&]() {
        run.reads.append(double(sock->bytesAvailable()));
        consumed += sock->bytesAvailable();
    });
    XmppSocket xs(nullptr);
    xs.setSocket(sock);
    sock->setParent(&xs);
    QObject::connect(&xs, &XmppSocket::streamReceived, [&](const QDomElement &el) {
        QStringList attrs;
        const auto map = el.attributes();
        for (int i = 0; i < map.count(); i++) {
            auto a = map.item(i).toAttr();
            attrs << a.name() + u'=' + a.value();
        }
        attrs.sort();
        run.events.append(u"open "_s + attrs.join(u' '));
    });
    QObject::connect(&xs, &XmppSocket::stanzaReceived, [&](const QDomElement &el) {
        if (el.isNull()) return;  // whitespace keep-alive notification: not a stream-open / stanza / stream-close event
        run.events.append(u"stanza "_s + canonEl(el));
    });
    QObject::connect(&xs, &XmppSocket::streamClosed, [&]() { run.events.append(u"close"_s); });
    sock->connectToHost(QHostAddress::LocalHost, server.serverPort());
    QTcpSocket *peer = nullptr;
    if (!spin([&] { if (!peer && server.hasPendingConnections()) peer = server.nextPendingConnection(); return peer && sock->state() == QAbstractSocket::ConnectedState; })) {
        run.timedOut = true;
        return run;
    }
    int pos = 0;
    QList<int> ends = cuts;
    ends << stream.size();
    for (int end : ends) {
        if (end <= pos) continue;
        peer->write(stream.constData() + pos, end - pos);
        peer->flush();
        const qint64 target = end;
        if (!spin([&] { return consumed >= target; })) {
            run.timedOut = true;
            break;
        }
        pos = end;
    }
    // let queued work settle
    for (int i = 0; i < 3; i++) QCoreApplication::processEvents();
    peer->abort();
    peer->deleteLater();
    sock->abort();
    return run;
}

int main(int argc, char **argv)
{
    QCoreApplication app(argc, argv);
    QTcpServer server;
    if (!server.listen(QHostAddress::LocalHost, 0)) return 3;
    std::string line;
    while (std::getline(std::cin, line)) {
        if (line.empty()) continue;
        auto in = QJsonDocument::fromJson(QByteArray::fromStdString(line)).object();
        QJsonObject out;
        out["n"] = in["n"];
        printf("BEGIN %d\n", in["n"].toInt());
        fflush(stdout);
        const QByteArray stream = QByteArray::fromHex(in["stream"].toString().toLatin1());
        QJsonArray results;
        for (auto sv : in["splits"].toArray()) {
            QList<int> cuts;
            for (auto c : sv.toArray()) cuts << c.toInt();
            Run r = deliver(server, stream, cuts);
            QJsonObject ro;
            ro["events"] = r.events;
            ro["reads"] = r.reads;
            if (r.timedOut) ro["timeout"] = true;
            results.append(ro);
        }
        out["results"] = results;
        emitJson(out);
    }
    return 0;
}
