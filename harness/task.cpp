// C13 monitor: executes orderings of promise/task operations on the real QXmppPromise/QXmppTask and reports
// continuation invocation counts, value identity, object accounting and operator new/delete balance.
// stdin: one ordering per line: "<type> <op> <op> ..."; stdout: "BEGIN <line>" then one JSON result line each.
#include "QXmppPromise.h"
#include "QXmppTask.h"
#include "QXmppFutureUtils_p.h"

#include <QObject>
#include <cstdio>
#include <cstdlib>
#include <iostream>
#include <set>
#include <sstream>
#include <string>
#include <vector>

static long g_newBalance = 0;
static bool g_count = false;
void *operator new(size_t n)
{
    if (g_count) ++g_newBalance;
    void *p = malloc(n ? n : 1);
    if (!p) abort();
    return p;
}
void operator delete(void *p) noexcept
{
    if (p && g_count) --g_newBalance;
    free(p);
}
void operator delete(void *p, size_t) noexcept
{
    if (p && g_count) --g_newBalance;
    free(p);
}

struct NoCount {
    bool s;
    NoCount() : s(g_count) { g_count = false; }
    ~NoCount() { g_count = s; }
};
struct Acct {
    long live = 0, constructed = 0, copies = 0, moves = 0, badDestroy = 0;
    std::set<const void *> liveSet;
    void born(const void *p) { NoCount nc; ++live; ++constructed; liveSet.insert(p); }
    void dead(const void *p)
    {
        NoCount nc;
        if (!liveSet.erase(p)) ++badDestroy;
        else --live;
    }
};
static Acct g_val, g_tok;

struct Val {
    int tag = 0;
    bool movedFrom = false;
    Val() { g_val.born(this); }
    explicit Val(int t) : tag(t) { g_val.born(this); }
    Val(const Val &o) : tag(o.tag), movedFrom(o.movedFrom) { g_val.born(this); ++g_val.copies; }
    Val(Val &&o) noexcept : tag(o.tag), movedFrom(o.movedFrom) { o.movedFrom = true; g_val.born(this); ++g_val.moves; }
    Val &operator=(const Val &) = default;
    Val &operator=(Val &&o) noexcept { tag = o.tag; movedFrom = o.movedFrom; o.movedFrom = true; return *this; }
    ~Val() { g_val.dead(this); }
};
struct Mov {
    int tag = 0;
    bool movedFrom = false;
    explicit Mov(int t) : tag(t) { g_val.born(this); }
    Mov(const Mov &) = delete;
    Mov(Mov &&o) noexcept : tag(o.tag), movedFrom(o.movedFrom) { o.movedFrom = true; g_val.born(this); ++g_val.moves; }
    Mov &operator=(Mov &&o) noexcept { tag = o.tag; movedFrom = o.movedFrom; o.movedFrom = true; return *this; }
    ~Mov() { g_val.dead(this); }
};
// convertible source for the converting finish() overload
struct Src {
    int tag;
    operator Val() && { return Val(tag); }
};
// token captured by every continuation: tells whether the closure was released
struct Tok {
    Tok() { g_tok.born(this); }
    Tok(const Tok &) { g_tok.born(this); ++g_tok.copies; }
    Tok(Tok &&) noexcept { g_tok.born(this); ++g_tok.moves; }
    ~Tok() { g_tok.dead(this); }
};

struct Result {
    int count = 0, count2 = 0, innerCount = 0;
    int tagSeen = -1;
    bool movedFromSeen = false;
    bool ctxAliveAtCall = true;
    bool ctxBAliveAtCall = true;
    int tag2 = -1;
    int canaryBad = 0;
};

template<typename T>
struct World {
    std::vector<QXmppPromise<T> *> ps;
    std::vector<QXmppTask<T> *> ts;
    QObject *ctx = new QObject;
    bool ctxAlive = true;
    QObject *ctxB = new QObject;
    bool ctxBAlive = true;
    Result r;
    // second pair for nested use
    QXmppPromise<T> *p2 = nullptr;
    // result tasks of continuations attached through QXmpp::Private::chain()
    std::vector<QXmppTask<int> *> chained;

    void dropP(size_t j) { delete ps.at(j); ps[j] = nullptr; }
    void dropT(size_t i) { delete ts.at(i); ts[i] = nullptr; }
    void killCtx() { if (ctxAlive) { delete ctx; ctxAlive = false; } }
    void killCtxB() { if (ctxBAlive) { delete ctxB; ctxBAlive = false; } }
    QXmppPromise<T> *liveP()
    {
        for (auto *p : ps) if (p) return p;
        return nullptr;
    }
    void reenter(char R)
    {
        switch (R) {
        case 'n': break;
        case 'P': for (size_t j = 0; j < ps.size(); j++) if (ps[j]) dropP(j); break;
        case 'T': for (size_t i = 0; i < ts.size(); i++) if (ts[i]) dropT(i); break;
        case 'H':
            for (size_t j = 0; j < ps.size(); j++) if (ps[j]) dropP(j);
            for (size_t i = 0; i < ts.size(); i++) if (ts[i]) dropT(i);
            break;
        case 'X': killCtx(); break;
        case 'A': {
            // nested: create another pair, attach, finish
            QXmppPromise<T> q;
            auto t = q.task();
            QObject c2;
            if constexpr (std::is_void_v<T>) {
                t.then(&c2, [this, k = Tok()]() { ++r.innerCount; });
                q.finish();
            } else {
                t.then(&c2, [this, k = Tok()](T &&v) { if (v.tag == 4242 && !v.movedFrom) ++r.innerCount; T sink(std::move(v)); });
                q.finish(T(4242));
            }
            break;
        }
        default: break;
        }
    }
    void attach(size_t i, char R)
    {
        auto *t = ts.at(i);
        if (R == 'S') {
            // self capture: continuation owns a copy of its own task
            auto self = std::make_shared<QXmppTask<T>>(*t);
            if constexpr (std::is_void_v<T>) {
                t->then(ctx, [this, self, k = Tok()]() { ++r.count; r.ctxAliveAtCall = ctxAlive; });
            } else {
                t->then(ctx, [this, self, k = Tok()](T &&v) { ++r.count; r.ctxAliveAtCall = ctxAlive; r.tagSeen = v.tag; r.movedFromSeen = v.movedFrom; T sink(std::move(v)); });
            }
            return;
        }
        if (R == 'C') {
            // attached through the library's own chain() helper (every manager request is built on it): the converter is the continuation,
            // the chained result task is kept by the caller and has a continuation of its own
            if constexpr (!std::is_void_v<T>) {
                auto t2 = QXmpp::Private::chain<int>(QXmppTask<T>(*t), ctx, [this, k = Tok()](T &&v) -> int {
                    ++r.count;
                    r.ctxAliveAtCall = ctxAlive;
                    r.tagSeen = v.tag;
                    r.movedFromSeen = v.movedFrom;
                    T sink(std::move(v));
                    return 5;
                });
                chained.push_back(new QXmppTask<int>(std::move(t2)));
                chained.back()->then(ctx, [this, k2 = Tok()](int &&) { ++r.innerCount; });
                return;
            }
        }
        if (R == 'N') {
            // the continuation attaches a second continuation to the same (copied) task: memory safety only
            auto copy = std::make_shared<QXmppTask<T>>(*t);
            if constexpr (std::is_void_v<T>) {
                t->then(ctx, [this, copy, k = Tok()]() mutable { ++r.count; copy->then(ctx, [this, k2 = Tok()]() { ++r.count2; }); copy.reset(); });
            } else {
                t->then(ctx, [this, copy, k = Tok()](T &&v) mutable { ++r.count; r.tagSeen = v.tag; r.movedFromSeen = v.movedFrom; T sink(std::move(v)); copy->then(ctx, [this, k2 = Tok()](T &&) { ++r.count2; }); copy.reset(); });
            }
            return;
        }
        if constexpr (std::is_void_v<T>) {
            t->then(ctx, [this, R, k = Tok()]() {
                ++r.count;
                r.ctxAliveAtCall = ctxAlive;
                auto *self = this;
                char re = R;
                reenter(R);
                if (R != re) ++self->r.canaryBad;  // reads the closure after the re-entrant action
            });
        } else {
            t->then(ctx, [this, R, k = Tok()](T &&v) {
                ++r.count;
                r.ctxAliveAtCall = ctxAlive;
                r.tagSeen = v.tag;
                r.movedFromSeen = v.movedFrom;
                T sink(std::move(v));
                auto *self = this;
                char re = R;
                reenter(R);
                if (R != re) ++self->r.canaryBad;  // reads the closure after the re-entrant action
            });
        }
    }
    void attach2(size_t i)
    {
        auto *t = ts.at(i);
        if constexpr (std::is_void_v<T>) {
            t->then(ctxB, [this, k = Tok()]() { ++r.count2; r.ctxBAliveAtCall = ctxBAlive; });
        } else {
            t->then(ctxB, [this, k = Tok()](T &&v) { ++r.count2; r.ctxBAliveAtCall = ctxBAlive; r.tag2 = v.tag; T sink(std::move(v)); });
        }
    }
    // a late continuation that owns a copy of its own task (attached through context B): on a finished task whose value is gone it must be
    // released when then() returns - stored, it would keep the task alive through itself for good
    void attach3(size_t i)
    {
        auto *t = ts.at(i);
        auto self = std::make_shared<QXmppTask<T>>(*t);
        if constexpr (std::is_void_v<T>) {
            t->then(ctxB, [this, self, k = Tok()]() { ++r.count2; r.ctxBAliveAtCall = ctxBAlive; });
        } else {
            t->then(ctxB, [this, self, k = Tok()](T &&v) { ++r.count2; r.ctxBAliveAtCall = ctxBAlive; r.tag2 = v.tag; T sink(std::move(v)); });
        }
    }
    void finish(size_t j, bool conv)
    {
        auto *p = ps.at(j);
        if constexpr (std::is_void_v<T>) {
            p->finish();
        } else if constexpr (std::is_same_v<T, Val>) {
            if (conv) p->finish(Src { 777 });
            else p->finish(Val(777));
        } else {
            p->finish(T(777));
        }
    }
    void cleanup()
    {
        for (size_t j = 0; j < ps.size(); j++) if (ps[j]) dropP(j);
        for (size_t i = 0; i < ts.size(); i++) if (ts[i]) dropT(i);
        for (auto *c : chained) delete c;
        chained.clear();
        killCtx();
        killCtxB();
    }
};

template<typename T>
static std::string runOrdering(const std::vector<std::string> &ops, bool conv)
{
    g_val = Acct();
    g_tok = Acct();
    g_newBalance = 0;
    Result res;
    {
        g_count = true;
        auto *w = new World<T>();
        for (auto &op : ops) {
            // an operation on a handle that a (mis-timed) continuation already dropped is skipped
            auto deadT = [&](char c) { size_t i = c - '0'; return i >= w->ts.size() || !w->ts[i]; };
            auto deadP = [&](char c) { size_t i = c - '0'; return i >= w->ps.size() || !w->ps[i]; };
            if ((op == "tk" || op == "pc") && !w->liveP()) continue;
            if ((op.rfind("tc", 0) == 0 || op.rfind("dt", 0) == 0) && deadT(op[2])) continue;
            if ((op[0] == 'a' || op[0] == 'b' || op[0] == 'c') && deadT(op[1])) continue;
            if (op[0] == 'a' && !w->ctxAlive) continue;
            if ((op[0] == 'b' || op[0] == 'c') && !w->ctxBAlive) continue;
            if (op[0] == 'f' && deadP(op[1])) continue;
            if (op.rfind("dp", 0) == 0 && deadP(op[2])) continue;
            if (op == "P") w->ps.push_back(new QXmppPromise<T>());
            else if (op == "tk") w->ts.push_back(new QXmppTask<T>(w->liveP()->task()));
            else if (op.rfind("tc", 0) == 0) w->ts.push_back(new QXmppTask<T>(*w->ts.at(op[2] - '0')));
            else if (op == "pc") w->ps.push_back(new QXmppPromise<T>(*w->liveP()));
            else if (op[0] == 'a') w->attach(op[1] - '0', op[2]);
            else if (op[0] == 'b') w->attach2(op[1] - '0');
            else if (op[0] == 'c') w->attach3(op[1] - '0');
            else if (op[0] == 'f') w->finish(op[1] - '0', conv);
            else if (op == "x") w->killCtx();
            else if (op == "y") w->killCtxB();
            else if (op.rfind("dp", 0) == 0) w->dropP(op[2] - '0');
            else if (op.rfind("dt", 0) == 0) w->dropT(op[2] - '0');
            else { fprintf(stderr, "bad op %s\n", op.c_str()); exit(3); }
        }
        w->cleanup();
        res = w->r;
        delete w;
        g_count = false;
    }
    std::ostringstream o;
    o << "{\"count\":" << res.count << ",\"count2\":" << res.count2 << ",\"inner\":" << res.innerCount
      << ",\"tag\":" << res.tagSeen << ",\"movedFrom\":" << (res.movedFromSeen ? "true" : "false")
      << ",\"ctxAliveAtCall\":" << (res.ctxAliveAtCall ? "true" : "false")
      << ",\"ctxBAliveAtCall\":" << (res.ctxBAliveAtCall ? "true" : "false") << ",\"tag2\":" << res.tag2 << ",\"canaryBad\":" << res.canaryBad
      << ",\"valLive\":" << g_val.live << ",\"valBadDestroy\":" << g_val.badDestroy << ",\"valCopies\":" << g_val.copies
      << ",\"tokLive\":" << g_tok.live << ",\"tokBadDestroy\":" << g_tok.badDestroy
      << ",\"newBalance\":" << g_newBalance << "}";
    return o.str();
}

int main()
{
    {
        // warm-up: the first QObject/QPointer of a thread allocates per-thread data that stays
        QObject *o = new QObject;
        QPointer<QObject> p(o);
        delete o;
        QXmppPromise<void> wp;
        auto wt = wp.task();
        QObject c;
        wt.then(&c, [] {});
        wp.finish();
    }
    std::string line;
    while (std::getline(std::cin, line)) {
        if (line.empty()) continue;
        std::istringstream is(line);
        std::string type, op;
        is >> type;
        std::vector<std::string> ops;
        while (is >> op) ops.push_back(op);
        printf("BEGIN %s\n", line.c_str());
        fflush(stdout);
        std::string out;
        if (type == "void") out = runOrdering<void>(ops, false);
        else if (type == "val") out = runOrdering<Val>(ops, false);
        else if (type == "conv") out = runOrdering<Val>(ops, true);
        else if (type == "mov") out = runOrdering<Mov>(ops, false);
        else { fprintf(stderr, "bad type\n"); return 3; }
        printf("%s\n", out.c_str());
        fflush(stdout);
    }
    return 0;
}
