// hand-written additions to fields_gen.h (inherited setters, aggregates with public members are handled in fields.cpp)
F(QXmppIq, setTo, to);
F(QXmppIq, setFrom, from);
F(QXmppIq, setId, id);
F(QXmppIq, setLang, lang);
F(QXmppMessage, setTo, to);
F(QXmppMessage, setFrom, from);
F(QXmppMessage, setId, id);
F(QXmppMessage, setLang, lang);
F(QXmppPresence, setTo, to);
F(QXmppPresence, setFrom, from);
F(QXmppPresence, setId, id);
