// (shared by harness/fields.cpp and harness/fields_part.cpp, which is compiled once per part of the field list so that the parts build in parallel)
#pragma once
// C01 layer 1: objects built with the library's own setters. For every (class, setter, getter) pair of harness/fields_gen.h
// (generated from the headers) and every object state in which the field is live - a benign probe value survives
// serialize -> parse -> getter - every boundary / hostile value of the setter's C++ parameter type must survive as well.
// request: {"seed":n, "ns":{tag:namespace,...}}  ->  one JSON line per (field, state) + a summary line
#pragma GCC diagnostic ignored "-Wdeprecated-declarations"
#include "codec_registry.h"

#include <QDate>
#include <QDateTime>
#include <QHostAddress>
#include <QMimeDatabase>
#include <QMimeType>
#include <QUrl>
#include <QUuid>
#include <cmath>
#include <iostream>
#include <limits>
#include <algorithm>
#include <map>
#include <memory>
#include <random>
#include <string>
#include <type_traits>

inline QJsonObject g_ns;
inline QString g_nsOverride;   // set by an object state: the namespace the fragment's parent would declare (context-dependent serializers)
inline std::mt19937_64 g_rng;

template<class X>
struct is_optional : std::false_type { };
template<class X>
struct is_optional<std::optional<X>> : std::true_type { };

// ---- value domains; element 0 is the benign probe
template<class V>
static std::vector<V> domain()
{
    std::vector<V> out;
    if constexpr (is_optional<V>::value) {
        for (auto x : domain<typename V::value_type>()) out.push_back(V(x));
    } else if constexpr (std::is_same_v<V, bool>) {
        out = { true, false };
    } else if constexpr (std::is_integral_v<V>) {
        out.push_back(V(5));
        const long double cands[] = { 0, 1, 2, 9, 10, 99, 127, 128, 255, 256, 1000, 32767, 32768, 65535, 65536, 16777216.0L, 2147483647.0L, 2147483648.0L, 4294967295.0L, 4294967296.0L,
                                      5368709120.0L, 9007199254740993.0L, 9223372036854775807.0L, 9223372036854775808.0L, 18446744073709551615.0L, -1, -2, -128, -129, -32768, -32769, -2147483648.0L, -2147483649.0L, -9223372036854775808.0L };
        for (auto c : cands)
            if (c >= (long double)std::numeric_limits<V>::min() && c <= (long double)std::numeric_limits<V>::max()) out.push_back(V(c));
        for (int i = 0; i < 6; i++) {
            // random value of random magnitude
            const int bits = 1 + int(g_rng() % (sizeof(V) * 8));
            unsigned long long r = g_rng();
            if (bits < 64) r &= ((1ull << bits) - 1);
            out.push_back(V(r));
        }
    } else if constexpr (std::is_floating_point_v<V>) {
        out = { V(1.5), V(0.25), V(-1.5), V(123456.789), V(1e-7), V(51.123456789012), V(-179.99999999), V(1e15), V(0) };
    } else if constexpr (std::is_same_v<V, QString>) {
        out = { u"x1"_s, u"a<b>&\"'c"_s, u"]]>"_s, QString::fromUtf8("\xc3\xa9\xe4\xb8\xad\xf0\x9f\x98\x80"), u"a  b"_s, u"two words"_s, u"&amp;&lt;"_s, u"a\nb"_s, u"a\tb"_s, QString(300, u'q') };
    } else if constexpr (std::is_same_v<V, QByteArray>) {
        QByteArray all;
        for (int i = 0; i < 256; i++) all.append(char(i));
        out = { QByteArray("x1"), QByteArray("plain-ascii_value"), QByteArray("YWJj"), QByteArray("a+/=b") };
        (void)all;
    } else if constexpr (std::is_same_v<V, QDateTime>) {
        out = { QDateTime(QDate(2020, 1, 2), QTime(3, 4, 5), Qt::UTC), QDateTime(QDate(2020, 1, 2), QTime(3, 4, 5, 123), Qt::UTC), QDateTime(QDate(1970, 1, 1), QTime(0, 0, 0), Qt::UTC),
                QDateTime(QDate(2038, 1, 19), QTime(3, 14, 8), Qt::UTC), QDateTime(QDate(2099, 12, 31), QTime(23, 59, 59), Qt::UTC), QDateTime(QDate(2021, 6, 7), QTime(8, 9, 10), Qt::OffsetFromUTC, 19800),
                QDateTime(QDate(1999, 2, 28), QTime(22, 0, 1), Qt::OffsetFromUTC, -12600) };
    } else if constexpr (std::is_same_v<V, QDate>) {
        out = { QDate(2000, 1, 2), QDate(1900, 12, 31), QDate(2024, 2, 29), QDate(1970, 1, 1) };
    } else if constexpr (std::is_same_v<V, QUrl>) {
        out = { QUrl(u"https://example.org/x1"_s), QUrl(u"https://example.org/a%20b?x=1&y=%3C2%3E#frag"_s), QUrl(u"xmpp:user@example.org?join"_s), QUrl(QString::fromUtf8("https://example.org/\xc3\xbc?q=a&b=c")),
                QUrl(u"https://user:pw@example.org:8443/p/a/t/h;x=1"_s) };
    } else if constexpr (std::is_same_v<V, QMimeType>) {
        QMimeDatabase db;
        for (auto n : { "text/plain", "image/png", "application/octet-stream", "audio/ogg", "application/x-tar", "text/x-c++src", "application/vnd.oasis.opendocument.text" })
            if (auto t = db.mimeTypeForName(QString::fromLatin1(n)); t.isValid()) out.push_back(t);
    } else if constexpr (std::is_same_v<V, QHostAddress>) {
        out = { QHostAddress(u"192.0.2.1"_s), QHostAddress(u"255.255.255.255"_s), QHostAddress(u"::1"_s), QHostAddress(u"2001:db8::ff00:42:8329"_s), QHostAddress(u"10.0.0.1"_s), QHostAddress(u"fe80::1"_s) };
    } else if constexpr (std::is_same_v<V, QMap<QString, QString>>) {
        out = { V { { u"x1"_s, u"v1"_s } }, V { { u"a"_s, u"1"_s }, { u"b"_s, u"2"_s } }, V { { u"key"_s, u"a<b>&\"'c"_s } }, V { { u"k<&>"_s, QString::fromUtf8("\xc3\xa9\xe4\xb8\xad") } }, V { { u"z"_s, u"26"_s }, { u"a"_s, u"1"_s }, { u"m"_s, u"13"_s } } };
    } else if constexpr (std::is_same_v<V, QList<int>>) {
        out = { V { 110 }, V { 100, 201 }, V { 201, 100 }, V { 110, 210, 307, 332 }, V { 999 }, V { 100 } };
    } else if constexpr (std::is_same_v<V, QList<QByteArray>>) {
        QByteArray all;
        for (int i = 0; i < 256; i++) all.append(char(i));
        out = { V { QByteArray("x1") }, V { QByteArray("key-a"), QByteArray("key-b") }, V { all }, V { QByteArray(1, '\0'), QByteArray("\xff\xfe", 2) }, V { QByteArray(32, 'k'), QByteArray(33, 'l'), QByteArray(31, 'm') } };
    } else if constexpr (std::is_same_v<V, QUuid>) {
        out = { QUuid(u"{d4565ee7-bbb3-4cbe-8a45-1f2c7c9e0a11}"_s), QUuid(u"{00000000-0000-4000-8000-000000000001}"_s), QUuid(u"{ffffffff-ffff-4fff-bfff-ffffffffffff}"_s) };
    } else if constexpr (std::is_same_v<V, QStringList> || std::is_same_v<V, QVector<QString>> || std::is_same_v<V, QList<QString>> || std::is_same_v<V, std::vector<QString>>) {
        out = { V { u"x1"_s }, V { u"a"_s, u"b"_s, u"c"_s }, V { u"b"_s, u"a"_s }, V { u"a<b>&\"'c"_s, QString::fromUtf8("\xc3\xa9\xe4\xb8\xad") }, V { u"one two"_s, u"three"_s } };
    }
    return out;
}

template<class V>
static QString show(const V &v)
{
    if constexpr (is_optional<V>::value) {
        return v ? show(*v) : u"(nullopt)"_s;
    } else if constexpr (std::is_same_v<V, bool>) {
        return v ? u"true"_s : u"false"_s;
    } else if constexpr (std::is_integral_v<V>) {
        if constexpr (std::is_signed_v<V>) return QString::number(qlonglong(v));
        else return QString::number(qulonglong(v));
    } else if constexpr (std::is_enum_v<V>) {
        return u"enum:"_s + QString::number(qlonglong(v));
    } else if constexpr (std::is_floating_point_v<V>) {
        return QString::number(double(v), 'g', 17);
    } else if constexpr (std::is_same_v<V, QString>) {
        return v;
    } else if constexpr (std::is_same_v<V, QByteArray>) {
        return QString::fromLatin1(v.toHex());
    } else if constexpr (std::is_same_v<V, QDateTime>) {
        return v.isValid() ? v.toString(Qt::ISODateWithMs) : u"(invalid)"_s;
    } else if constexpr (std::is_same_v<V, QDate>) {
        return v.toString(Qt::ISODate);
    } else if constexpr (std::is_same_v<V, QUrl>) {
        return QString::fromLatin1(v.toEncoded());
    } else if constexpr (std::is_same_v<V, QMimeType>) {
        return v.name();
    } else if constexpr (std::is_same_v<V, QHostAddress>) {
        return v.toString();
    } else if constexpr (std::is_same_v<V, QMap<QString, QString>>) {
        QStringList l;
        for (auto it = v.begin(); it != v.end(); ++it) l << it.key() + QLatin1Char('=') + it.value();
        return l.join(u" | ");
    } else if constexpr (std::is_same_v<V, QList<int>>) {
        QStringList l;
        for (int i : v) l << QString::number(i);
        return l.join(u",");
    } else if constexpr (std::is_same_v<V, QList<QByteArray>>) {
        QStringList l;
        for (auto &b : v) l << QString::fromLatin1(b.toHex());
        return l.join(u",");
    } else if constexpr (std::is_same_v<V, QUuid>) {
        return v.toString();
    } else if constexpr (std::is_same_v<V, QStringList> || std::is_same_v<V, QVector<QString>> || std::is_same_v<V, QList<QString>> || std::is_same_v<V, std::vector<QString>>) {
        return QStringList(v.begin(), v.end()).join(u" | ");
    } else {
        return u"?"_s;
    }
}

template<class V, class G>
static bool same(const V &want, const G &got)
{
    if constexpr (is_optional<V>::value && is_optional<G>::value) {
        if (want.has_value() != got.has_value()) return false;
        return !want || same(*want, *got);
    } else if constexpr (is_optional<G>::value) {
        return got.has_value() && same(want, *got);
    } else if constexpr (std::is_same_v<V, QDateTime>) {
        return got.isValid() && want.toMSecsSinceEpoch() == got.toMSecsSinceEpoch();   // the instant; the zone of representation is not judged
    } else if constexpr (std::is_floating_point_v<V>) {
        return double(want) == double(got);
    } else if constexpr (std::is_same_v<V, QStringList> || std::is_same_v<V, QVector<QString>> || std::is_same_v<V, QList<QString>> || std::is_same_v<V, std::vector<QString>>) {
        // list-valued fields are compared as multisets ("up to sibling order")
        QStringList a(want.begin(), want.end()), b(got.begin(), got.end());
        a.sort();
        b.sort();
        return a == b;
    } else if constexpr (std::is_same_v<V, QList<int>> || std::is_same_v<V, QList<QByteArray>>) {
        V a = want, b = got;
        std::sort(a.begin(), a.end());
        std::sort(b.begin(), b.end());
        return a == b;
    } else if constexpr (std::is_same_v<V, QMimeType>) {
        return want.name() == got.name();
    } else if constexpr (std::is_same_v<V, bool>) {
        return want == bool(got);
    } else if constexpr (std::is_integral_v<V> && std::is_integral_v<G>) {
        return std::cmp_equal(want, got);
    } else {
        return want == V(got);
    }
}

// fields whose documented domain is narrower than their C++ type: values outside are not judged
static const std::map<std::string, std::pair<long double, long double>> RANGES = {
    { "QXmppJinglePayloadType.setChannels", { 1, 255 } },            // "1 for mono, 2 for stereo"; 0 channels does not exist, absent means 1
    { "QXmppResultSetQuery.setMax", { 0, 2147483647.0L } },          // -1 is the documented 'not set'
    { "QXmppResultSetQuery.setIndex", { 0, 2147483647.0L } },
    { "QXmppResultSetReply.setCount", { 0, 2147483647.0L } },
    { "QXmppResultSetReply.setIndex", { 0, 2147483647.0L } },
    { "QXmppTuneItem.setRating", { 1, 10 } },                        // XEP-0118: 1..10
    { "QXmppStanza::Error.setCode", { 0, 2147483647.0L } },          // legacy numeric error codes are positive; 0 is the documented 'none'
};
static const std::map<std::string, std::pair<long long, int>> MULTIPLE_OF = {
    { "QXmppEntityTimeIq.setTzo", { 60, 0 } },   // seconds, written as +hh:mm, |offset| < 14 h
};
// fields exempt by the statement itself
static const std::map<std::string, const char *> EXCLUDED = {
    { "QXmppMessage.setXhtml", "XHTML-IM body is written raw (the documented exception of the statement)" },
    { "QXmppMessage.setCarbonForwarded", "local flag, not part of the serialized form" },
};
// values that are outside the field's domain in some object states only (a companion field decides what they mean)
static bool skipValueInState(const std::string &key, const QString &state, const QString &shown)
{
    // XEP-0153: "valid photo" means "the photo with this hash"; without a hash the element is <photo/>, which *is* "no photo"
    if (key == "QXmppPresence.setVCardUpdateType" && shown == u"enum:2" && state != u"photo") return true;
    // XEP-0363: content-type is optional and the library treats QMimeType's default (application/octet-stream) as "not given"
    if (key == "QXmppHttpUploadRequestIq.setContentType" && shown == u"application/octet-stream") return true;
    // Type::None is the "no element" marker of these two classes (an element without a name cannot be written; DESIGN 5.3)
    if ((key == "QXmppCallInviteElement.setType" || key == "QXmppJingleMessageInitiationElement.setType") && shown == u"enum:0") return true;
    return false;
}
// combination pass: one field's value makes another meaningless (protocol-level exclusivity); gate value "*" = any value of the gate field
struct Gate {
    const char *cls, *lost, *gate, *value, *why;
};
static const Gate GATES[] = {
    { "QXmppMessage", "setSpoilerHint", "setIsSpoiler", "false", "a hint belongs to a spoiler (XEP-0382)" },
    { "QXmppMessage", "setReceiptRequested", "setReceiptId", "*", "a message is a receipt or asks for one (XEP-0184)" },
    { "QXmppPresence", "setMucPassword", "setMucSupported", "false", "the password is a child of the MUC join element" },
    { "QXmppRpcResponseIq", "setFaultString", "setFaultCode", "0", "a fault exists iff its code is non-zero" },
    { "QXmppStanza::Error", "setMaxFileSize", "setFileTooLarge", "false", "the size limit is a child of <file-too-large/> (XEP-0363)" },
    { "QXmppStanza::Error", "setRetryDate", "setFileTooLarge", "true", "an upload error is either 'file too large' or 'retry later' (XEP-0363)" },
    { "QXmppStanza::Error", "setRetryDate", "setMaxFileSize", "*", "setting a size limit makes the error a 'file too large' error" },
    { "QXmppRosterIq::Item", "setMixParticipantId", "setIsMixChannel", "false", "participant id is an attribute of the MIX channel marker" },
    { "QXmppJingleIq::Content", "setTransportFingerprintHash", "setTransportFingerprint", "*", "the DTLS fingerprint element needs both value and hash" },
    { "QXmppJingleIq::Content", "setTransportFingerprintSetup", "setTransportFingerprint", "*", "the DTLS fingerprint element needs both value and hash" },
    { "QXmppJingleIq::Content", "setTransportFingerprint", "setTransportFingerprintHash", "*", "the DTLS fingerprint element needs both value and hash" },
    { "QXmppJingleIq::Content", "setTransportFingerprintSetup", "setTransportFingerprintHash", "*", "the DTLS fingerprint element needs both value and hash" },
};
static bool gated(const char *cls, const QString &lost, const QJsonArray &names, const QJsonArray &values)
{
    for (const auto &g : GATES) {
        if (qstrcmp(g.cls, cls) != 0 || lost != QLatin1String(g.lost)) continue;
        for (int i = 0; i < names.size(); i++)
            if (names[i].toString() == QLatin1String(g.gate) && (g.value[0] == '*' || values[i].toString() == QLatin1String(g.value))) return true;
    }
    return false;
}
template<class V>
static bool inRange(const V &v, long double lo, long double hi)
{
    if constexpr (is_optional<V>::value) return !v || inRange(*v, lo, hi);
    else if constexpr (std::is_arithmetic_v<V>) return (long double)v >= lo && (long double)v <= hi;
    else return true;
}

// ---- object states
#include "fields_states.h"
template<class T>
static std::vector<std::pair<QString, std::function<void(T &)>>> states()
{
    std::vector<std::pair<QString, std::function<void(T &)>>> out;
    if constexpr (std::is_base_of_v<QXmppIq, T>) {
        out.push_back({ u"iq-get"_s, [](T &t) { t.setType(QXmppIq::Get); } });
        out.push_back({ u"iq-set"_s, [](T &t) { t.setType(QXmppIq::Set); } });
        out.push_back({ u"iq-result"_s, [](T &t) { t.setType(QXmppIq::Result); } });
        out.push_back({ u"iq-error"_s, [](T &t) { t.setType(QXmppIq::Error); } });
    } else if constexpr (std::is_same_v<T, QXmppMessage>) {
        out.push_back({ u"chat"_s, [](T &t) { t.setType(QXmppMessage::Chat); } });
        out.push_back({ u"groupchat"_s, [](T &t) { t.setType(QXmppMessage::GroupChat); } });
        out.push_back({ u"error"_s, [](T &t) { t.setType(QXmppMessage::Error); } });
    } else if constexpr (std::is_same_v<T, QXmppPresence>) {
        out.push_back({ u"available"_s, [](T &) {} });
        out.push_back({ u"unavailable"_s, [](T &t) { t.setType(QXmppPresence::Unavailable); } });
        out.push_back({ u"error"_s, [](T &t) { t.setType(QXmppPresence::Error); } });
    } else {
        out.push_back({ u"default"_s, [](T &) {} });
    }
    Extra<T>::add(out);
    return out;
}

static bool parseDocNs(const QByteArray &x, QDomDocument &doc)
{
    return doc.setContent(x, true);
}

// nested serializers rely on the default namespace of their parent: give a namespace-less root the namespace its tag has in the corpus
static bool toDom(QByteArray x, QDomDocument &doc, bool &wrapped)
{
    wrapped = false;
    if (!parseDocNs(x, doc)) {
        wrapped = true;
        return parseDocNs("<wrapped-fragment>" + x + "</wrapped-fragment>", doc);
    }
    auto root = doc.documentElement();
    if (root.namespaceURI().isEmpty() && !root.tagName().contains(u':') && (g_ns.contains(root.tagName()) || !g_nsOverride.isEmpty())) {
        QDomDocument d2;
        d2.setContent(x, false);
        d2.documentElement().setAttribute(u"xmlns"_s, g_nsOverride.isEmpty() ? g_ns[root.tagName()].toString() : g_nsOverride);
        return parseDocNs(d2.toByteArray(-1), doc);
    }
    return true;
}

// canonical form of an element: tag, namespace, sorted attributes, text, children as a sorted multiset ("up to sibling order")
static QString canonEl(const QDomElement &el)
{
    QString out = u'{' + el.namespaceURI() + u'}' + (el.localName().isEmpty() ? el.tagName() : el.localName());
    QStringList attrs;
    const auto m = el.attributes();
    for (int i = 0; i < m.count(); i++) {
        const auto a = m.item(i).toAttr();
        if (a.name() == u"xmlns" || a.name().startsWith(u"xmlns:")) continue;
        attrs << a.name() + u'=' + a.value();
    }
    attrs.sort();
    out += u'[' + attrs.join(u'|') + u']';
    QStringList kids;
    QString text;
    for (auto n = el.firstChild(); !n.isNull(); n = n.nextSibling()) {
        if (n.isElement()) kids << canonEl(n.toElement());
        else if (n.isText()) text += n.nodeValue();
    }
    kids.sort();
    return out + u'(' + (kids.isEmpty() ? text : text.trimmed()) + kids.join(u',') + u')';
}

inline int g_fields = 0, g_live = 0, g_values = 0, g_fail = 0, g_skip = 0;

static std::vector<QByteArray> binaryDomain()
{
    QByteArray all;
    for (int i = 0; i < 256; i++) all.append(char(i));
    std::vector<QByteArray> out { QByteArray("x1"), all, QByteArray(1, '\0'), QByteArray("\xff\xfe\x00\x01", 4), QByteArray(1000, 'z') };
    for (int n : { 1, 2, 3, 4, 5, 31, 32, 33 }) {
        QByteArray b;
        for (int i = 0; i < n; i++) b.append(char(g_rng()));
        out.push_back(b);
    }
    return out;
}

// ---- per-class registry of the fields seen, for the combination pass ("every assignment of values to its fields", "all combinations
// of present/absent optional fields"): type-erased accessors over the domain values that survive alone
template<class T>
struct FieldOps {
    std::string name;
    std::function<void(T &, size_t)> set;
    std::function<bool(const T &, size_t)> holds;
    std::function<QString(size_t)> shown;
    std::function<QString(const T &)> got;
    std::map<QString, std::vector<size_t>> okValues;   // state -> indices of the values that round-trip when set alone
    bool discriminator = false;   // enum-valued: type / mode / action fields decide which other fields exist at all; they are varied through the object states instead
};
template<class T>
static std::vector<FieldOps<T>> &fieldsOf()
{
    static std::vector<FieldOps<T>> v;
    return v;
}
struct ClassHooks {
    std::function<void()> clear, run;
};
static std::vector<ClassHooks> g_classes;
inline int g_combos = 0, g_comboFails = 0, g_comboRoundsMax = 60;
template<class T>
static void runCombos(const char *cls);
// every registered getter of the class as shown text: "reports the same field values" also means that a field nobody set does not
// appear as set after the round trip (cross-talk between fields that serialize alike)
template<class T>
static QStringList snapshot(const T &o)
{
    QStringList out;
    for (auto &f : fieldsOf<T>()) out << f.got(o);
    return out;
}
// fields whose value is derived from another one when not given (not cross-talk)
struct Derived {
    const char *cls, *field, *from, *why;
};
static const Derived DERIVED[] = {
    { "QXmppVCardIq", "setPhotoType", "setPhoto", "the MIME type is guessed from the image data when none was set" },
};
// fields that change when the *prepared* object of a state goes through serialize -> parse with nothing else set (defaults the parser fills in,
// namespaces the harness lends to namespace-less fragments): not judged in that state. nullopt = the prepared object alone does not round-trip
template<class T, class Prep>
static std::optional<std::vector<std::string>> baselineChanges(Prep prep)
{
    T o {};
    g_nsOverride.clear();
    prep(o);
    const QStringList before = snapshot(o);
    QDomDocument doc;
    bool wrapped;
    if (!toDom(serializeAny(o), doc, wrapped)) return std::nullopt;
    auto o2 = parseAny<T>(doc.documentElement());
    if (!o2) return std::nullopt;
    std::vector<std::string> out;
    auto &all = fieldsOf<T>();
    for (size_t i = 0; i < all.size(); i++)
        if (all[i].got(*o2) != before[int(i)]) out.push_back(all[i].name);
    return out;
}
template<class T>
static QString untouchedChanged(const QStringList &before, const T &after, const std::vector<std::string> &touched, const char *cls = "")
{
    auto &all = fieldsOf<T>();
    for (size_t i = 0; i < all.size() && i < size_t(before.size()); i++) {
        if (std::find(touched.begin(), touched.end(), all[i].name) != touched.end()) continue;
        bool derived = false;
        for (const auto &d : DERIVED)
            if (qstrcmp(d.cls, cls) == 0 && all[i].name == d.field) derived = true;
        if (derived) continue;
        const QString now = all[i].got(after);
        if (now != before[int(i)]) return QString::fromStdString(all[i].name) + u": "_s + before[int(i)].left(60) + u" -> "_s + now.left(60);
    }
    return {};
}
template<class T>
static void registerClass(const char *cls)
{
    static bool done = false;
    if (done) return;
    done = true;
    g_classes.push_back({ [] { fieldsOf<T>().clear(); }, [cls] { runCombos<T>(cls); } });
}

template<class T, class V, class G, class Set, class Get>
static void runAccess(const char *cls, const char *setter, Set set, Get get, bool binary, std::vector<V> explicitDom = {});

template<class X>
struct strip_optional { using type = X; };
template<class X>
struct strip_optional<std::optional<X>> { using type = X; };

// enum-valued setters: the domain is every enumerator of the parameter's type (generated from the headers)
template<class T, class C1, class A, class C2, class R>
static void runEnumField(const char *cls, const char *setter, void (C1::*set)(A), R (C2::*get)() const, std::vector<typename strip_optional<std::decay_t<A>>::type> values)
{
    using V = std::decay_t<A>;
    using G = std::decay_t<R>;
    std::vector<V> dom;
    for (auto v : values) dom.push_back(V(v));
    runAccess<T, V, G>(cls, setter, [set](T &o, const V &v) { (o.*set)(v); }, [get](const T &o) -> G { return (o.*get)(); }, false, dom);
}

template<class T, class C1, class A, class C2, class R>
static void runField(const char *cls, const char *setter, void (C1::*set)(A), R (C2::*get)() const)
{
    using V = std::decay_t<A>;
    using G = std::decay_t<R>;
    runAccess<T, V, G>(cls, setter, [set](T &o, const V &v) { (o.*set)(v); }, [get](const T &o) -> G { return (o.*get)(); }, false);
}

// aggregates with public members (the private nonza structs)
template<class T, class V>
static void runMember(const char *cls, const char *name, V T::*mem, bool binary = false)
{
    runAccess<T, V, V>(cls, name, [mem](T &o, const V &v) { o.*mem = v; }, [mem](const T &o) -> V { return o.*mem; }, binary);
}

template<class T, class V, class G, class Set, class Get>
static void runAccess(const char *cls, const char *setter, Set set, Get get, bool binary, std::vector<V> explicitDom)
{
    g_fields++;
    if (g_fields <= g_skip) return;
    printf("FIELD %d %s %s\n", g_fields, cls, setter);
    fflush(stdout);
    auto dom = explicitDom.empty() ? domain<V>() : explicitDom;
    if constexpr (std::is_same_v<V, QByteArray>) {
        if (binary) dom = binaryDomain();
    }
    const std::string key = std::string(cls) + "." + setter;
    if constexpr (std::is_same_v<V, QMap<QString, QString>>) {
        // documented domain: only these three header names are kept by the setter (XEP-0363 security considerations)
        if (key == "QXmppHttpUploadSlotIq.setPutHeaders")
            dom = { V { { u"Authorization"_s, u"Basic x1"_s } }, V { { u"Cookie"_s, u"a=b; c=\"<&>\""_s }, { u"Expires"_s, u"Wed, 21 Oct 2099 07:28:00 GMT"_s } }, V { { u"Authorization"_s, QString::fromUtf8("Bearer \xc3\xa9\xe4\xb8\xad") }, { u"Cookie"_s, u"x"_s }, { u"Expires"_s, u"0"_s } } };
    }
    if (dom.empty()) {
        emitJson(QJsonObject { { "cls", QString::fromLatin1(cls) }, { "field", QString::fromLatin1(setter) }, { "excluded", u"value type not supported by the harness"_s } });
        return;
    }
    if (EXCLUDED.count(key)) {
        emitJson(QJsonObject { { "cls", QString::fromLatin1(cls) }, { "field", QString::fromLatin1(setter) }, { "excluded", QString::fromLatin1(EXCLUDED.at(key)) } });
        return;
    }
    if (auto it = RANGES.find(key); it != RANGES.end()) {
        // documented value range of the field (see table)
        std::vector<V> kept;
        for (size_t i = 0; i < dom.size(); i++)
            if (V v = dom[i]; inRange(v, it->second.first, it->second.second)) kept.push_back(v);
        dom = kept;
    }
    if constexpr (std::is_integral_v<V> && !std::is_same_v<V, bool>) {
        // fields whose lexical form has a coarser unit than the C++ type (XEP-0082 offsets are written as +hh:mm)
        if (auto it = MULTIPLE_OF.find(key); it != MULTIPLE_OF.end()) {
            std::vector<V> kept;
            for (auto v : dom) {
                const long long q = (long long)(v) % (it->second.first * 24 * 14) / it->second.first * it->second.first;
                kept.push_back(V(q ? q : it->second.first));
            }
            dom = kept;
        }
    }
    registerClass<T>(cls);
    auto domShared = std::make_shared<std::vector<V>>(dom);
    std::vector<size_t> perm(dom.size());
    for (size_t i = 0; i < perm.size(); i++) perm[i] = i;
    FieldOps<T> ops;
    ops.name = setter;
    ops.discriminator = std::is_enum_v<typename strip_optional<V>::type>;
    ops.set = [set, domShared](T &o, size_t i) { set(o, V((*domShared)[i])); };
    ops.holds = [get, domShared](const T &o, size_t i) { return same(V((*domShared)[i]), G(get(o))); };
    ops.shown = [domShared](size_t i) { return show(V((*domShared)[i])); };
    ops.got = [get](const T &o) { return show(G(get(o))); };
    for (auto &[stateName, prep] : states<T>()) {
        QJsonObject rec { { "cls", QString::fromLatin1(cls) }, { "field", QString::fromLatin1(setter) }, { "state", stateName } };
        QJsonArray fails;
        auto attempt = [&](const V &v, QString &got, QByteArray &xml) -> bool {
            T o {};
            g_nsOverride.clear();
            prep(o);
            set(o, v);
            // a value the setter itself refuses or normalises is outside the field's domain
            if (!same(v, G(get(o)))) {
                got = u"(setter-domain)"_s;
                return true;
            }
            xml = serializeAny(o);
            QDomDocument doc;
            bool wrapped;
            if (!toDom(xml, doc, wrapped)) {
                got = u"(output not well-formed)"_s;
                return false;
            }
            auto o2 = parseAny<T>(doc.documentElement());
            if (!o2) {
                got = u"(own output refused)"_s;
                return false;
            }
            const G g = get(*o2);
            got = show(g);
            if (!same(v, g)) return false;
            // "... and serializes to the same XML"
            const QByteArray xml2 = serializeAny(*o2);
            if (xml2 != xml) {
                QDomDocument doc2;
                bool wrapped2;
                if (!toDom(xml2, doc2, wrapped2) || canonEl(doc.documentElement()) != canonEl(doc2.documentElement())) {
                    got = u"(serializes differently after the round trip) "_s + QString::fromUtf8(xml2.left(700));
                    return false;
                }
            }
            return true;
        };
        QString got;
        QByteArray xml;
        // the probe is the first benign value that differs from what the prepared object reports anyway
        {
            T o {};
            g_nsOverride.clear();
            prep(o);
            const G def = get(o);
            for (size_t i = 0; i < dom.size(); i++) {
                if (V v = dom[i]; !same(v, def) && !skipValueInState(key, stateName, show(v))) {
                    if (i) {
                        V first = dom[0];
                        dom[0] = v;
                        dom[i] = first;
                        std::swap(perm[0], perm[i]);   // the registry keeps the original order
                    }
                    break;
                }
            }
        }
        const bool live = attempt(V(dom[0]), got, xml) && got != u"(setter-domain)";
        rec["live"] = live;
        if (!live) {
            rec["probe_xml"] = QString::fromUtf8(xml.left(600));
            rec["probe_got"] = got;
            emitJson(rec);
            continue;
        }
        g_live++;
        ops.okValues[stateName].push_back(perm[0]);
        int tried = 0;
        for (size_t i = 1; i < dom.size(); i++) {
            if (skipValueInState(key, stateName, show(V(dom[i])))) continue;
            tried++;
            g_values++;
            if (!attempt(V(dom[i]), got, xml)) {
                g_fail++;
                fails.append(QJsonObject { { "value", show(V(dom[i])) }, { "got", got }, { "xml", QString::fromUtf8(xml.left(1200)) } });
            } else if (got != u"(setter-domain)") {
                ops.okValues[stateName].push_back(perm[i]);
            }
        }
        rec["tried"] = tried;
        rec["fails"] = fails;
        emitJson(rec);
    }
    if (!ops.okValues.empty()) fieldsOf<T>().push_back(std::move(ops));
}

// combination pass: several fields of one object set at once, each to a value that survives alone in that state
template<class T>
static void runCombos(const char *cls)
{
    auto &all = fieldsOf<T>();
    if (all.size() < 2) return;
    int tried = 0, gatedCount = 0;
    QJsonArray fails;
    for (auto &[stateName, prep] : states<T>()) {
        std::vector<FieldOps<T> *> live;
        for (auto &f : all)
            if (f.okValues.count(stateName) && !f.discriminator) live.push_back(&f);
        if (live.size() < 2) continue;
        const auto baseline = baselineChanges<T>(prep);
        const int rounds = int(qMin<size_t>(size_t(g_comboRoundsMax), 6 + live.size() * 3));
        for (int k = 0; k < rounds; k++) {
            // subset: pairs, triples, half, all
            size_t want = k % 4 == 0 ? live.size() : k % 4 == 1 ? 2 : k % 4 == 2 ? 3 : qMax<size_t>(2, live.size() / 2);
            want = qMin(want, live.size());
            std::vector<FieldOps<T> *> pick = live;
            std::shuffle(pick.begin(), pick.end(), g_rng);
            pick.resize(want);
            std::vector<size_t> val;
            for (auto *f : pick) {
                auto &ok = f->okValues[stateName];
                val.push_back(ok[g_rng() % ok.size()]);
            }
            T o {};
            g_nsOverride.clear();
            prep(o);
            for (size_t i = 0; i < pick.size(); i++) pick[i]->set(o, val[i]);
            // setters that interact (one resets or normalises another): such an assignment is not an object the API can build
            bool buildable = true;
            for (size_t i = 0; i < pick.size(); i++) buildable = buildable && pick[i]->holds(o, val[i]);
            if (!buildable) continue;
            tried++;
            g_combos++;
            const QStringList before = snapshot(o);
            std::vector<std::string> touched = baseline.value_or(std::vector<std::string> {});
            for (auto *f : pick) touched.push_back(f->name);
            const QByteArray xml = serializeAny(o);
            QDomDocument doc;
            bool wrapped;
            QString problem, lost;
            if (!toDom(xml, doc, wrapped)) problem = u"(output not well-formed)"_s;
            else if (auto o2 = parseAny<T>(doc.documentElement()); !o2) problem = u"(own output refused)"_s;
            else {
                for (size_t i = 0; i < pick.size() && problem.isEmpty(); i++)
                    if (!pick[i]->holds(*o2, val[i])) {
                        lost = QString::fromStdString(pick[i]->name);
                        problem = u"value-lost: set "_s + pick[i]->shown(val[i]) + u", after the round trip "_s + pick[i]->got(*o2);
                    }
                if (problem.isEmpty() && baseline) {
                    if (const QString ch = untouchedChanged(before, *o2, touched, cls); !ch.isEmpty()) {
                        lost = ch.section(u':', 0, 0);
                        problem = u"(a field that was not set changed) "_s + ch;
                    }
                }
                if (problem.isEmpty()) {
                    const QByteArray xml2 = serializeAny(*o2);
                    QDomDocument doc2;
                    bool w2;
                    if (xml2 != xml && (!toDom(xml2, doc2, w2) || canonEl(doc.documentElement()) != canonEl(doc2.documentElement())))
                        problem = u"(serializes differently after the round trip) "_s + QString::fromUtf8(xml2.left(700));
                }
            }
            if (!problem.isEmpty()) {
                QJsonArray names, values;
                for (size_t i = 0; i < pick.size(); i++) {
                    names.append(QString::fromStdString(pick[i]->name));
                    values.append(pick[i]->shown(val[i]).left(80));
                }
                if (!lost.isEmpty() && gated(cls, lost, names, values)) {
                    gatedCount++;
                    continue;
                }
                g_comboFails++;
                if (fails.size() < 12) fails.append(QJsonObject { { "state", stateName }, { "fields", names }, { "values", values }, { "lost", lost }, { "problem", problem.left(900) }, { "xml", QString::fromUtf8(xml.left(1500)) } });
            }
        }
    }
    emitJson(QJsonObject { { "cls", QString::fromLatin1(cls) }, { "combination", true }, { "fields", int(all.size()) }, { "tried", tried }, { "not_judged_gated", gatedCount }, { "fails", fails } });
}

// object-valued fields (lists / optionals of codec classes): values are parsed from corpus elements handed in by the driver ("objs"),
// equality is equality of the value objects' own serialization
inline QJsonObject g_objs;
template<class T, class X, class Set, class Get>
static void runObject(const char *cls, const char *setter, const char *xname, const char *objKey, Set set, Get get, int maxCount = 2)
{
    static const auto reg = buildRegistry();
    const Entry *xcheck = nullptr;
    for (const auto &e : reg)
        if (e.hasCheck && e.name == QLatin1String(xname)) xcheck = &e;
    g_fields++;
    if (g_fields <= g_skip) return;
    printf("FIELD %d %s %s\n", g_fields, cls, setter);
    fflush(stdout);
    std::vector<X> values;
    for (auto v : g_objs[QString::fromLatin1(objKey)].toArray()) {
        QDomDocument d;
        if (!d.setContent(v.toString().toUtf8(), true)) continue;
        if (xcheck && !xcheck->check(d.documentElement())) continue;   // the value type's own check refuses this corpus element (a negative test document)
        std::optional<X> x;
        if constexpr (std::is_same_v<X, QXmppElement>) x = QXmppElement(d.documentElement());
        else x = parseAny<X>(d.documentElement());
        if (x) {
            // only values that survive their own round trip are fair probes of the container
            const QByteArray a = serializeAny(*x);
            if (!a.trimmed().isEmpty()) values.push_back(*x);
        }
    }
    for (auto &[stateName, prep] : states<T>()) {
        QJsonObject rec { { "cls", QString::fromLatin1(cls) }, { "field", QString::fromLatin1(setter) }, { "state", stateName }, { "object_valued", true } };
        QJsonArray fails;
        int tried = 0;
        bool live = false;
        for (size_t i = 0; i < values.size(); i++) {
            for (int count = 1; count <= (i == 0 ? maxCount : 1); count++) {   // one value; for the first also two of them
                std::vector<X> in(size_t(count), values[i]);
                if (count == 2 && values.size() > 1) in[1] = values[1];
                T o {};
                g_nsOverride.clear();
                prep(o);
                set(o, in);
                const QStringList before = snapshot(o);
                const QByteArray xml = serializeAny(o);
                QDomDocument doc;
                bool wrapped;
                QString got;
                bool ok = false;
                if (!toDom(xml, doc, wrapped)) got = u"(output not well-formed)"_s;
                else if (auto o2 = parseAny<T>(doc.documentElement()); !o2) got = u"(own output refused)"_s;
                else {
                    const std::vector<X> out = get(*o2);
                    QStringList a, b;
                    for (auto &x : in) a << QString::fromUtf8(serializeAny(x));
                    for (auto &x : out) b << QString::fromUtf8(serializeAny(x));
                    a.sort();
                    b.sort();
                    got = b.join(u" ; ");
                    ok = a == b;
                    if (const auto baseline = baselineChanges<T>(prep); ok && baseline) {
                        if (const QString ch = untouchedChanged(before, *o2, *baseline, cls); !ch.isEmpty()) {
                            ok = false;
                            got = u"(a field that was not set changed) "_s + ch;
                        }
                    }
                    if (ok) {
                        const QByteArray xml2 = serializeAny(*o2);
                        QDomDocument doc2;
                        bool w2;
                        if (xml2 != xml && (!toDom(xml2, doc2, w2) || canonEl(doc.documentElement()) != canonEl(doc2.documentElement()))) {
                            ok = false;
                            got = u"(serializes differently after the round trip) "_s + QString::fromUtf8(xml2.left(900));
                        }
                    }
                }
                if (i == 0 && count == 1) {
                    live = ok || got.startsWith(u"(serializes differently") || got.startsWith(u"(a field that was not set");
                    if (!live) {
                        rec["probe_xml"] = QString::fromUtf8(xml.left(600));
                        rec["probe_got"] = got.left(300);
                        break;
                    }
                }
                tried++;
                g_values++;
                if (!ok) {
                    g_fail++;
                    fails.append(QJsonObject { { "value", QString::fromUtf8(serializeAny(values[i])).left(400) + (count == 2 ? u" (x2)"_s : QString()) }, { "got", got.left(900) }, { "xml", QString::fromUtf8(xml.left(1200)) } });
                }
            }
            if (!live) break;
        }
        rec["live"] = live;
        if (live) {
            g_live++;
            rec["tried"] = tried;
            rec["fails"] = fails;
        }
        emitJson(rec);
    }
}
template<class X, class L>
static std::vector<X> toVec(const L &l) { return std::vector<X>(l.begin(), l.end()); }
// list-valued, optional-valued and plain object setters
#define OL(T, S, G, X, L, KEY) runObject<T, X>(#T, #S, #X, KEY, [](T &o, const std::vector<X> &v) { o.S(L(v.begin(), v.end())); }, [](const T &o) { return toVec<X>(o.G()); })
#define OO(T, S, G, X, KEY) runObject<T, X>(#T, #S, #X, KEY, [](T &o, const std::vector<X> &v) { o.S(v.front()); }, [](const T &o) { std::vector<X> r; if (auto x = o.G()) r.push_back(*x); return r; }, 1)
#define OP(T, S, G, X, KEY) runObject<T, X>(#T, #S, #X, KEY, [](T &o, const std::vector<X> &v) { o.S(v.front()); }, [](const T &o) { return std::vector<X> { o.G() }; }, 1)
#define F(T, S, G) runField<T>(#T, #S, &T::S, &T::G)
#define FE(T, S, G, ...) runEnumField<T>(#T, #S, &T::S, &T::G, { __VA_ARGS__ })
#define M(T, MEM) runMember<T>(#T, #MEM, &T::MEM)
#define MB(T, MEM) runMember<T>(#T, #MEM, &T::MEM, true)

