// registry of every parse/toXml (or fromDom/toXml) pair of the library, behind one uniform interface
#pragma once
#include "common.h"

#include "QXmppArchiveIq.h"
#include "QXmppBindIq.h"
#include "QXmppBitsOfBinaryContentId.h"
#include "QXmppBitsOfBinaryData.h"
#include "QXmppBitsOfBinaryDataList.h"
#include "QXmppBitsOfBinaryIq.h"
#include "QXmppBookmarkSet.h"
#include "QXmppByteStreamIq.h"
#include "QXmppDataForm.h"
#include "QXmppDiscoveryIq.h"
#include "QXmppElement.h"
#include "QXmppEncryptedFileSource.h"
#include "QXmppEntityTimeIq.h"
#include "QXmppExternalService.h"
#include "QXmppExternalServiceDiscoveryIq.h"
#include "QXmppFallback.h"
#include "QXmppFileMetadata.h"
#include "QXmppFileShare.h"
#include "QXmppGeolocItem.h"
#include "QXmppHash.h"
#include "QXmppHttpFileSource.h"
#include "QXmppHttpUploadIq.h"
#include "QXmppIbbIq.h"
#include "QXmppIq.h"
#include "QXmppJingleData.h"
#include "QXmppMamIq.h"
#include "QXmppMessage.h"
#include "QXmppMessageReaction.h"
#include "QXmppMixConfigItem.h"
#include "QXmppMixInfoItem.h"
#include "QXmppMixInvitation.h"
#include "QXmppMixIq.h"
#include "QXmppMixIq_p.h"
#include "QXmppMixParticipantItem.h"
#include "QXmppMovedItem_p.h"
#include "QXmppMucIq.h"
#include "QXmppNonSASLAuth.h"
#include "QXmppOutOfBandUrl.h"
#include "QXmppPingIq.h"
#include "QXmppPresence.h"
#include "QXmppPubSubAffiliation.h"
#include "QXmppPubSubBaseItem.h"
#include "QXmppPubSubEvent.h"
#include "QXmppPubSubIq_p.h"
#include "QXmppPubSubSubscription.h"
#include "QXmppPushEnableIq.h"
#include "QXmppRegisterIq.h"
#include "QXmppResultSet.h"
#include "QXmppRosterIq.h"
#include "QXmppRpcIq.h"
#include "QXmppSasl_p.h"
#include "QXmppSceEnvelope_p.h"

#include "QXmppStanza.h"
#include "compat/QXmppSessionIq.h"
#include "compat/QXmppStartTlsPacket.h"
#include "QXmppStreamError_p.h"
#include "QXmppStreamFeatures.h"
#include "QXmppStreamInitiationIq_p.h"
#include "QXmppStreamManagement_p.h"
#include "QXmppThumbnail.h"
#include "QXmppTrustMessageElement.h"
#include "QXmppTrustMessageKeyOwner.h"
#include "QXmppUserTuneItem.h"
#include "QXmppVCardIq.h"
#include "QXmppVersionIq.h"
#include "Stream.h"

#include <functional>
#include <optional>
#include <vector>

using namespace QXmpp::Private;

struct Entry {
    QString name;
    bool hasCheck;
    bool fragment = false;  // toXml writes a sequence of siblings and parse() expects their parent element
    std::function<bool(const QDomElement &)> check;
    // parse then serialize; nullopt = parser refused the element
    std::function<std::optional<QByteArray>(const QDomElement &)> pass;
};

template<typename T>
static QByteArray serializeAny(const T &t)
{
    QByteArray out;
    QXmlStreamWriter w(&out);
    if constexpr (requires { t.toXml(&w); }) {
        t.toXml(&w);
    } else {
        t.toXml(w);
    }
    // flush a pending empty-element tag of serializers that write a sequence of siblings
    w.writeEndDocument();
    return out;
}

template<typename T>
static std::optional<T> parseAny(const QDomElement &el)
{
    if constexpr (requires { { T::fromDom(el) } -> std::same_as<std::optional<T>>; }) {
        return T::fromDom(el);
    } else if constexpr (requires(T t) { { t.parse(el) } -> std::same_as<bool>; }) {
        T t;
        if (!t.parse(el)) return std::nullopt;
        return t;
    } else {
        T t;
        t.parse(el);
        return t;
    }
}

template<typename T>
static Entry makeEntry(const char *name, std::function<bool(const QDomElement &)> check = nullptr)
{
    Entry e;
    e.name = QString::fromLatin1(name);
    if constexpr (requires(const QDomElement &el) { { T::fromDom(el) } -> std::same_as<std::optional<T>>; }) {
        // fromDom() is parser and type check in one
        if (!check) check = [](const QDomElement &el) { return T::fromDom(el).has_value(); };
    }
    e.hasCheck = bool(check);
    e.check = check ? check : [](const QDomElement &) { return true; };
    e.pass = [](const QDomElement &el) -> std::optional<QByteArray> {
        auto o = parseAny<T>(el);
        if (!o) return std::nullopt;
        return serializeAny(*o);
    };
    return e;
}

#define REG(T) reg.push_back(makeEntry<T>(#T))
#define REGC(T, CHK) reg.push_back(makeEntry<T>(#T, [](const QDomElement &el) { return CHK(el); }))

static bool isIqWithChild(const QDomElement &el, const char16_t *tag, const char16_t *ns)
{
    if (el.tagName() != u"iq") return false;
    auto c = el.firstChildElement();
    return c.tagName() == QStringView(tag) && c.namespaceURI() == QStringView(ns);
}

static std::vector<Entry> buildRegistry()
{
    std::vector<Entry> reg;
    // --- stanzas and generic containers (no type check: every element is admitted)
    REG(QXmppMessage);
    REG(QXmppPresence);
    REG(QXmppIq);
    REG(QXmppStanza::Error);
    REG(QXmppDataForm);
    REG(QXmppExtendedAddress);
    {
        Entry e;
        e.name = u"QXmppElement"_s;
        e.hasCheck = false;
        e.check = [](const QDomElement &) { return true; };
        e.pass = [](const QDomElement &el) -> std::optional<QByteArray> { return serializeAny(QXmppElement(el)); };
        reg.push_back(e);
    }
    REGC(QXmppStreamFeatures, QXmppStreamFeatures::isStreamFeatures);
    // --- IQ payload classes
    REGC(QXmppArchiveChatIq, QXmppArchiveChatIq::isArchiveChatIq);
    REGC(QXmppArchiveListIq, QXmppArchiveListIq::isArchiveListIq);
    REGC(QXmppArchiveRemoveIq, QXmppArchiveRemoveIq::isArchiveRemoveIq);
    REGC(QXmppArchiveRetrieveIq, QXmppArchiveRetrieveIq::isArchiveRetrieveIq);
    REGC(QXmppArchivePrefIq, QXmppArchivePrefIq::isArchivePrefIq);
    REGC(QXmppBindIq, QXmppBindIq::isBindIq);
    REGC(QXmppBitsOfBinaryIq, QXmppBitsOfBinaryIq::isBitsOfBinaryIq);
    REGC(QXmppByteStreamIq, QXmppByteStreamIq::isByteStreamIq);
    REGC(QXmppDiscoveryIq, QXmppDiscoveryIq::isDiscoveryIq);
    REGC(QXmppEntityTimeIq, QXmppEntityTimeIq::isEntityTimeIq);
    REGC(QXmppExternalServiceDiscoveryIq, QXmppExternalServiceDiscoveryIq::isExternalServiceDiscoveryIq);
    REGC(QXmppHttpUploadRequestIq, QXmppHttpUploadRequestIq::isHttpUploadRequestIq);
    REGC(QXmppHttpUploadSlotIq, QXmppHttpUploadSlotIq::isHttpUploadSlotIq);
    REGC(QXmppIbbOpenIq, QXmppIbbOpenIq::isIbbOpenIq);
    REGC(QXmppIbbCloseIq, QXmppIbbCloseIq::isIbbCloseIq);
    REGC(QXmppIbbDataIq, QXmppIbbDataIq::isIbbDataIq);
    REGC(QXmppJingleIq, QXmppJingleIq::isJingleIq);
    REGC(QXmppMamQueryIq, QXmppMamQueryIq::isMamQueryIq);
    REGC(QXmppMamResultIq, QXmppMamResultIq::isMamResultIq);
    REGC(QXmppMixIq, QXmppMixIq::isMixIq);
    REGC(QXmppMixSubscriptionUpdateIq, QXmppMixSubscriptionUpdateIq::isMixSubscriptionUpdateIq);
    REGC(QXmppMixInvitationRequestIq, QXmppMixInvitationRequestIq::isMixInvitationRequestIq);
    REGC(QXmppMixInvitationResponseIq, QXmppMixInvitationResponseIq::isMixInvitationResponseIq);
    REGC(QXmppMucAdminIq, QXmppMucAdminIq::isMucAdminIq);
    REGC(QXmppMucOwnerIq, QXmppMucOwnerIq::isMucOwnerIq);
    REGC(QXmppNonSASLAuthIq, QXmppNonSASLAuthIq::isNonSASLAuthIq);
    REGC(QXmppPingIq, QXmppPingIq::isPingIq);
    REGC(QXmppPushEnableIq, QXmppPushEnableIq::isPushEnableIq);
    REGC(QXmppRegisterIq, QXmppRegisterIq::isRegisterIq);
    REGC(QXmppRosterIq, QXmppRosterIq::isRosterIq);
    REGC(QXmppRpcResponseIq, QXmppRpcResponseIq::isRpcResponseIq);
    REGC(QXmppRpcInvokeIq, QXmppRpcInvokeIq::isRpcInvokeIq);
    REGC(QXmppRpcErrorIq, QXmppRpcErrorIq::isRpcErrorIq);

    REGC(QXmppSessionIq, QXmppSessionIq::isSessionIq);
    REGC(QXmppStreamInitiationIq, QXmppStreamInitiationIq::isStreamInitiationIq);
    REGC(QXmppVCardIq, QXmppVCardIq::isVCard);
    REGC(QXmppVersionIq, QXmppVersionIq::isVersionIq);
    reg.push_back(makeEntry<PubSubIq<QXmppPubSubBaseItem>>("PubSubIq<BaseItem>", [](const QDomElement &el) { return PubSubIq<QXmppPubSubBaseItem>::isPubSubIq(el); }));
    reg.push_back(makeEntry<PubSubIq<QXmppGeolocItem>>("PubSubIq<GeolocItem>", [](const QDomElement &el) { return PubSubIq<QXmppGeolocItem>::isPubSubIq(el); }));
    reg.push_back(makeEntry<QXmppPubSubEvent<QXmppPubSubBaseItem>>("PubSubEvent<BaseItem>", [](const QDomElement &el) { return QXmppPubSubEvent<QXmppPubSubBaseItem>::isPubSubEvent(el); }));
    reg.push_back(makeEntry<QXmppPubSubEvent<QXmppTuneItem>>("PubSubEvent<TuneItem>", [](const QDomElement &el) { return QXmppPubSubEvent<QXmppTuneItem>::isPubSubEvent(el); }));
    // --- pubsub items
    REGC(QXmppPubSubBaseItem, QXmppPubSubBaseItem::isItem);
    REGC(QXmppGeolocItem, QXmppGeolocItem::isItem);
    REGC(QXmppMixConfigItem, QXmppMixConfigItem::isItem);
    REGC(QXmppMixInfoItem, QXmppMixInfoItem::isItem);
    REGC(QXmppMixParticipantItem, QXmppMixParticipantItem::isItem);
    REGC(QXmppTuneItem, QXmppTuneItem::isItem);
    REGC(QXmppMovedItem, QXmppMovedItem::isItem);
    // --- elements
    REGC(QXmppBookmarkSet, QXmppBookmarkSet::isBookmarkSet);
    REGC(QXmppExternalService, QXmppExternalService::isExternalService);
    REGC(QXmppSdpParameter, QXmppSdpParameter::isSdpParameter);
    REGC(QXmppJingleRtpCryptoElement, QXmppJingleRtpCryptoElement::isJingleRtpCryptoElement);
    REGC(QXmppJingleRtpEncryption, QXmppJingleRtpEncryption::isJingleRtpEncryption);
    REGC(QXmppJingleRtpFeedbackProperty, QXmppJingleRtpFeedbackProperty::isJingleRtpFeedbackProperty);
    REGC(QXmppJingleRtpFeedbackInterval, QXmppJingleRtpFeedbackInterval::isJingleRtpFeedbackInterval);
    REGC(QXmppJingleRtpHeaderExtensionProperty, QXmppJingleRtpHeaderExtensionProperty::isJingleRtpHeaderExtensionProperty);
    REGC(QXmppJingleMessageInitiationElement, QXmppJingleMessageInitiationElement::isJingleMessageInitiationElement);
    REGC(QXmppCallInviteElement, QXmppCallInviteElement::isCallInviteElement);
    REG(QXmppJingleCandidate);
    REG(QXmppJinglePayloadType);
    REG(QXmppJingleDescription);
    REG(QXmppJingleReason);
    REGC(QXmppMessageReaction, QXmppMessageReaction::isMessageReaction);
    REGC(QXmppMixInvitation, QXmppMixInvitation::isMixInvitation);
    REGC(QXmppPubSubAffiliation, QXmppPubSubAffiliation::isAffiliation);
    REGC(QXmppPubSubSubscription, QXmppPubSubSubscription::isSubscription);
    REGC(QXmppTrustMessageElement, QXmppTrustMessageElement::isTrustMessageElement);
    REGC(QXmppTrustMessageKeyOwner, QXmppTrustMessageKeyOwner::isTrustMessageKeyOwner);
    REG(QXmppResultSetQuery);
    REG(QXmppResultSetReply);
    REG(QXmppFileShare);
    REG(QXmppFileMetadata);
    REG(QXmppHash);
    REG(QXmppHashUsed);
    REG(QXmppThumbnail);
    {
        Entry e;
        e.name = u"QXmppBitsOfBinaryData"_s;
        e.hasCheck = false;
        e.check = [](const QDomElement &) { return true; };
        e.pass = [](const QDomElement &el) -> std::optional<QByteArray> {
            QXmppBitsOfBinaryData d;
            d.parseElementFromChild(el);
            QByteArray out;
            QXmlStreamWriter w(&out);
            d.toXmlElementFromChild(&w);
            return out;
        };
        reg.push_back(e);
    }
    REG(QXmppBitsOfBinaryDataList);
    reg.back().fragment = true;
    REG(QXmppEncryptedFileSource);
    REG(QXmppHttpFileSource);
    REG(QXmppOutOfBandUrl);
    REG(QXmppVCardAddress);
    REG(QXmppVCardEmail);
    REG(QXmppVCardPhone);
    REG(QXmppVCardOrganization);
    reg.back().fragment = true;
    REG(QXmppMucItem);
    REG(QXmppArchiveChat);
    // --- nonzas (private aggregates; fromDom is the type check)
    reg.push_back(makeEntry<Sasl::Auth>("Sasl::Auth"));
    reg.push_back(makeEntry<Sasl::Challenge>("Sasl::Challenge"));
    reg.push_back(makeEntry<Sasl::Failure>("Sasl::Failure"));
    reg.push_back(makeEntry<Sasl::Response>("Sasl::Response"));
    reg.push_back(makeEntry<Sasl::Success>("Sasl::Success"));
    REG(Bind2Feature);
    REG(Bind2Request);
    REG(Bind2Bound);
    REG(FastFeature);
    REG(FastTokenRequest);
    REG(FastToken);
    REG(FastRequest);
    reg.push_back(makeEntry<Sasl2::StreamFeature>("Sasl2::StreamFeature"));
    reg.push_back(makeEntry<Sasl2::UserAgent>("Sasl2::UserAgent"));
    reg.push_back(makeEntry<Sasl2::Authenticate>("Sasl2::Authenticate"));
    reg.push_back(makeEntry<Sasl2::Challenge>("Sasl2::Challenge"));
    reg.push_back(makeEntry<Sasl2::Response>("Sasl2::Response"));
    reg.push_back(makeEntry<Sasl2::Success>("Sasl2::Success"));
    reg.push_back(makeEntry<Sasl2::Failure>("Sasl2::Failure"));
    reg.push_back(makeEntry<Sasl2::Continue>("Sasl2::Continue"));
    reg.push_back(makeEntry<Sasl2::Abort>("Sasl2::Abort"));
    REG(SmEnable);
    REG(SmEnabled);
    REG(SmResume);
    REG(SmResumed);
    REG(SmFailed);
    REG(SmAck);
    REG(SmRequest);
    {
        // parse only (the library never serializes stream errors)
        Entry e;
        e.name = u"StreamErrorElement"_s;
        e.hasCheck = false;
        e.check = [](const QDomElement &) { return true; };
        e.pass = [](const QDomElement &el) -> std::optional<QByteArray> {
            auto r = StreamErrorElement::fromDom(el);
            (void)r;
            return std::nullopt;
        };
        reg.push_back(e);
    }
    REG(StarttlsRequest);
    REG(StarttlsProceed);
    return reg;
}
