// one part of the field list (harness/fields_part_<PART>.h, written by tools/gen_fields.py: whole classes stay together in one part, so the
// per-class combination pass sees all fields of its class); compiled with -DPART=<n>
#pragma GCC diagnostic ignored "-Wdeprecated-declarations"
#include "fields_core.h"
#define PARTFN_(n) runPart##n
#define PARTFN(n) PARTFN_(n)
#define STR_(x) #x
#define STR(x) STR_(x)
#define PARTHDR_(n) STR(fields_part_##n.h)
#define PARTHDR(n) PARTHDR_(n)
void PARTFN(PART)()
{
    for (auto &c : g_classes) c.clear();
#include PARTHDR(PART)
    if (g_skip == 0) {
        for (auto &c : g_classes) {
            printf("FIELD %d combinations -\n", g_fields + 1);
            fflush(stdout);
            c.run();
        }
    }
}
