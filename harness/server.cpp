// C16 harness: the real QXmppServer on 127.0.0.1:<ephemeral>, with a password checker that logs every decision.
// Raw scripted TCP clients are driven by the Python side.  stdout: JSON event lines.
#include "common.h"

#include "QXmppIncomingClient.h"
#include "QXmppLogger.h"
#include "QXmppPasswordChecker.h"
#include "QXmppServer.h"

#include <QCoreApplication>
#include <QMap>
#include <QTcpServer>

class Checker : public QXmppPasswordChecker
{
public:
    QMap<QString, QString> creds;
    QXmppPasswordReply::Error getPassword(const QXmppPasswordRequest &request, QString &password) override
    {
        QJsonObject o { { "ev", "pw" }, { "user", request.username() }, { "domain", request.domain() } };
        if (creds.contains(request.username())) {
            password = creds.value(request.username());
            o["known"] = true;
            emitJson(o);
            return QXmppPasswordReply::NoError;
        }
        o["known"] = false;
        emitJson(o);
        return QXmppPasswordReply::AuthorizationError;
    }
    bool hasGetPassword() const override { return true; }
};

int main(int argc, char **argv)
{
    QCoreApplication app(argc, argv);
    Checker checker;
    checker.creds[u"victim"_s] = u"victim-pw-1"_s;
    checker.creds[u"mallory"_s] = u"mallory-pw-2"_s;
    checker.creds[u"carol"_s] = u"carol-pw-3"_s;
    QXmppLogger logger;
    logger.setLoggingType(QXmppLogger::NoLogging);
    QXmppServer server;
    server.setDomain(u"example.org"_s);
    server.setLogger(&logger);
    server.setPasswordChecker(&checker);
    QObject::connect(&server, &QXmppServer::clientConnected, [](const QString &jid) { emitJson({ { "ev", "clientConnected" }, { "jid", jid } }); });
    QObject::connect(&server, &QXmppServer::clientDisconnected, [](const QString &jid) { emitJson({ { "ev", "clientDisconnected" }, { "jid", jid } }); });
    // find a free port (other workers do the same concurrently: retry)
    quint16 port = 0;
    bool ok = false;
    for (int attempt = 0; attempt < 50 && !ok; attempt++) {
        {
            QTcpServer probe;
            probe.listen(QHostAddress::LocalHost, 0);
            port = probe.serverPort();
        }
        ok = server.listenForClients(QHostAddress::LocalHost, port);
    }
    if (!ok) {
        emitJson({ { "ev", "listen_failed" } });
        return 3;
    }
    emitJson({ { "ev", "listening" }, { "port", int(port) } });
    return app.exec();
}
