// object states in which otherwise dormant fields are serialized (mandatory companions set to fixed values)
#pragma once
template<class T>
using States = std::vector<std::pair<QString, std::function<void(T &)>>>;

template<class T>
struct Extra {
    static void add(States<T> &) { }
};

template<>
struct Extra<QXmppCallInviteElement> {
    static void add(States<QXmppCallInviteElement> &v)
    {
        using E = QXmppCallInviteElement;
        v.clear();
        for (auto t : { E::Type::Invite, E::Type::Retract, E::Type::Accept, E::Type::Reject, E::Type::Left })
            v.push_back({ u"type-%1"_s.arg(int(t)), [t](E &e) { e.setType(t); e.setId(u"base-id"_s); } });
    }
};
template<>
struct Extra<QXmppJingleMessageInitiationElement> {
    static void add(States<QXmppJingleMessageInitiationElement> &v)
    {
        using E = QXmppJingleMessageInitiationElement;
        v.clear();
        for (auto t : { E::Type::Propose, E::Type::Ringing, E::Type::Proceed, E::Type::Reject, E::Type::Retract, E::Type::Finish })
            v.push_back({ u"type-%1"_s.arg(int(t)), [t](E &e) { e.setType(t); e.setId(u"base-id"_s); } });
    }
};
template<>
struct Extra<QXmppDataForm> {
    static void add(States<QXmppDataForm> &v)
    {
        v.clear();
        for (auto t : { QXmppDataForm::Form, QXmppDataForm::Submit, QXmppDataForm::Result, QXmppDataForm::Cancel })
            v.push_back({ u"form-type-%1"_s.arg(int(t)), [t](QXmppDataForm &f) { f.setType(t); } });
    }
};
template<>
struct Extra<QXmppMixConfigItem> {
    static void add(States<QXmppMixConfigItem> &v)
    {
        for (auto t : { QXmppDataForm::Form, QXmppDataForm::Submit, QXmppDataForm::Result })
            v.push_back({ u"form-type-%1"_s.arg(int(t)), [t](QXmppMixConfigItem &f) { f.setFormType(t); } });
    }
};
template<>
struct Extra<QXmppMixInfoItem> {
    static void add(States<QXmppMixInfoItem> &v)
    {
        for (auto t : { QXmppDataForm::Form, QXmppDataForm::Submit, QXmppDataForm::Result })
            v.push_back({ u"form-type-%1"_s.arg(int(t)), [t](QXmppMixInfoItem &f) { f.setFormType(t); } });
    }
};
template<>
struct Extra<QXmppEntityTimeIq> {
    static void add(States<QXmppEntityTimeIq> &v)
    {
        v.push_back({ u"result-with-utc"_s, [](QXmppEntityTimeIq &t) { t.setType(QXmppIq::Result); t.setUtc(QDateTime(QDate(2020, 5, 6), QTime(7, 8, 9), Qt::UTC)); } });
    }
};
template<>
struct Extra<QXmppJingleReason> {
    static void add(States<QXmppJingleReason> &v)
    {
        v.push_back({ u"success"_s, [](QXmppJingleReason &r) { r.setType(QXmppJingleReason::Success); } });
        v.push_back({ u"busy"_s, [](QXmppJingleReason &r) { r.setType(QXmppJingleReason::Busy); } });
    }
};
template<>
struct Extra<QXmppJingleRtpCryptoElement> {
    static void add(States<QXmppJingleRtpCryptoElement> &v)
    {
        v.push_back({ u"complete"_s, [](QXmppJingleRtpCryptoElement &c) { c.setTag(1); c.setCryptoSuite(u"AES_CM_128_HMAC_SHA1_80"_s); c.setKeyParams(u"inline:abc"_s); } });
    }
};
template<>
struct Extra<QXmppJingleRtpEncryption> {
    static void add(States<QXmppJingleRtpEncryption> &v)
    {
        v.push_back({ u"with-crypto"_s, [](QXmppJingleRtpEncryption &e) {
                         QXmppJingleRtpCryptoElement c;
                         c.setTag(1);
                         c.setCryptoSuite(u"AES_CM_128_HMAC_SHA1_80"_s);
                         c.setKeyParams(u"inline:abc"_s);
                         e.setCryptoElements({ c });
                     } });
    }
};
template<>
struct Extra<QXmppMessage> {
    static void add(States<QXmppMessage> &v)
    {
        v.push_back({ u"normal+thread"_s, [](QXmppMessage &m) { m.setType(QXmppMessage::Normal); m.setThread(u"base-thread"_s); } });
        v.push_back({ u"marker"_s, [](QXmppMessage &m) { m.setMarker(QXmppMessage::Displayed); m.setMarkerId(u"base-marked"_s); } });
        v.push_back({ u"muc-invitation"_s, [](QXmppMessage &m) { m.setMucInvitationJid(u"room@conference.example.org"_s); } });
        v.push_back({ u"encrypted"_s, [](QXmppMessage &m) { m.setEncryptionMethod(QXmpp::Omemo2); m.setBody(u"base-body"_s); } });
        v.push_back({ u"encrypted-other"_s, [](QXmppMessage &m) { m.setEncryptionMethodNs(u"urn:example:crypto"_s); } });
        v.push_back({ u"headline+body"_s, [](QXmppMessage &m) { m.setType(QXmppMessage::Headline); m.setBody(u"base-body"_s); m.setSubject(u"base-subject"_s); } });
    }
};
template<>
struct Extra<QXmppPresence> {
    static void add(States<QXmppPresence> &v)
    {
        v.push_back({ u"caps"_s, [](QXmppPresence &p) { p.setCapabilityHash(u"sha-1"_s); p.setCapabilityNode(u"https://example.org/client"_s); p.setCapabilityVer(QByteArray::fromHex("0102030405060708090a0b0c0d0e0f1011121314")); } });
        v.push_back({ u"muc"_s, [](QXmppPresence &p) { p.setMucSupported(true); } });
        v.push_back({ u"photo"_s, [](QXmppPresence &p) { p.setVCardUpdateType(QXmppPresence::VCardUpdateValidPhoto); p.setPhotoHash(QByteArray::fromHex("0102030405060708090a0b0c0d0e0f1011121314")); } });
        v.push_back({ u"subscribe"_s, [](QXmppPresence &p) { p.setType(QXmppPresence::Subscribe); } });
    }
};
template<>
struct Extra<QXmppPubSubSubscription> {
    // <subscription/> is written without a namespace of its own and means different things under pubsub, pubsub#event and pubsub#owner
    static void add(States<QXmppPubSubSubscription> &v)
    {
        for (auto ns : { "http://jabber.org/protocol/pubsub", "http://jabber.org/protocol/pubsub#event", "http://jabber.org/protocol/pubsub#owner" })
            v.push_back({ u"in-"_s + QString::fromLatin1(ns), [ns](QXmppPubSubSubscription &) { g_nsOverride = QString::fromLatin1(ns); } });
    }
};
template<>
struct Extra<QXmppJingleIq::Content> {
    // a content is only written with creator and name; description and transport only when they have a type / candidates
    static void add(States<QXmppJingleIq::Content> &v)
    {
        using C = QXmppJingleIq::Content;
        auto base = [](C &c) {
            c.setCreator(u"initiator"_s);
            c.setName(u"voice"_s);
            QXmppJingleDescription d;
            d.setType(u"urn:xmpp:jingle:apps:rtp:1"_s);
            d.setMedia(u"audio"_s);
            c.setDescription(d);
        };
        v.push_back({ u"rtp"_s, base });
        v.push_back({ u"rtp+candidate"_s, [base](C &c) {
                         base(c);
                         QXmppJingleCandidate cand;
                         cand.setComponent(1);
                         cand.setFoundation(u"1"_s);
                         cand.setHost(QHostAddress(u"192.0.2.7"_s));
                         cand.setPort(5000);
                         cand.setProtocol(u"udp"_s);
                         cand.setPriority(2130706431);
                         cand.setId(u"cand1"_s);
                         cand.setType(QXmppJingleCandidate::HostType);
                         c.addTransportCandidate(cand);
                     } });
        v.push_back({ u"rtp+payload+fingerprint"_s, [base](C &c) {
                         base(c);
                         QXmppJinglePayloadType pt;
                         pt.setId(96);
                         pt.setName(u"opus"_s);
                         pt.setClockrate(48000);
                         c.addPayloadType(pt);
                         QXmppJingleCandidate cand;
                         cand.setComponent(1);
                         cand.setHost(QHostAddress(u"2001:db8::7"_s));
                         cand.setPort(5002);
                         cand.setId(u"cand2"_s);
                         c.addTransportCandidate(cand);
                         c.setTransportFingerprint(QByteArray::fromHex("0102030405060708090a0b0c0d0e0f1011121314"));
                         c.setTransportFingerprintHash(u"sha-1"_s);
                         c.setTransportFingerprintSetup(u"actpass"_s);
                     } });
    }
};
template<>
struct Extra<QXmppStanza::Error> {
    static void add(States<QXmppStanza::Error> &v)
    {
        using E = QXmppStanza::Error;
        v.push_back({ u"cancel-item-not-found"_s, [](E &e) { e.setType(E::Cancel); e.setCondition(E::ItemNotFound); } });
        v.push_back({ u"modify-gone"_s, [](E &e) { e.setType(E::Modify); e.setCondition(E::Gone); } });
        v.push_back({ u"wait-policy"_s, [](E &e) { e.setType(E::Wait); e.setCondition(E::PolicyViolation); } });
        v.push_back({ u"type-only"_s, [](E &e) { e.setType(E::Auth); } });
    }
};
template<>
struct Extra<QXmppRosterIq::Item> {
    static void add(States<QXmppRosterIq::Item> &v)
    {
        v.push_back({ u"contact"_s, [](QXmppRosterIq::Item &i) { i.setBareJid(u"base@example.org"_s); i.setSubscriptionType(QXmppRosterIq::Item::Both); } });
        v.push_back({ u"mix-channel"_s, [](QXmppRosterIq::Item &i) { i.setBareJid(u"channel@mix.example.org"_s); i.setIsMixChannel(true); } });
    }
};
template<>
struct Extra<QXmppRpcResponseIq> {
    static void add(States<QXmppRpcResponseIq> &v)
    {
        v.push_back({ u"fault"_s, [](QXmppRpcResponseIq &r) { r.setType(QXmppIq::Result); r.setFaultCode(7); } });
    }
};
template<>
struct Extra<QXmppVCardIq> {
    static void add(States<QXmppVCardIq> &v)
    {
        v.push_back({ u"result-with-photo"_s, [](QXmppVCardIq &c) { c.setType(QXmppIq::Result); c.setPhoto(QByteArray("\x89PNG\r\n\x1a\n-not-really", 20)); } });
    }
};
template<>
struct Extra<QXmppMixIq> {
    static void add(States<QXmppMixIq> &v)
    {
        for (auto t : { QXmppMixIq::ClientJoin, QXmppMixIq::ClientLeave, QXmppMixIq::Join, QXmppMixIq::Leave, QXmppMixIq::SetNick, QXmppMixIq::Create, QXmppMixIq::Destroy })
            for (auto it : { QXmppIq::Set, QXmppIq::Result })
                v.push_back({ u"action-%1-iq-%2"_s.arg(int(t)).arg(int(it)), [t, it](QXmppMixIq &m) { m.setType(it); m.setActionType(t); } });
    }
};
template<>
struct Extra<Sasl2::Continue> {
    static void add(States<Sasl2::Continue> &v)
    {
        v.push_back({ u"with-task"_s, [](Sasl2::Continue &c) { c.tasks = { u"base-task"_s }; } });
    }
};
