// wire engine: a scripted fake XMPP server (QTcpServer/QSslSocket on 127.0.0.1:0) and real QXmppClient objects in one process
// and one event loop.  A case is a JSON script; everything observable is written to a journal (JSON array) returned to the driver.
#include "common.h"

#include "QXmppArchiveManager.h"
#include "QXmppAttentionManager.h"
#include "QXmppBlockingManager.h"
#include "QXmppBookmarkManager.h"
#include "QXmppCallInviteManager.h"
#include "QXmppJingleMessageInitiationManager.h"
#include "QXmppMovedManager.h"
#include "QXmppMucManager.h"
#include "QXmppRegistrationManager.h"
#include "QXmppRpcManager.h"
#include "QXmppUploadRequestManager.h"
#include "QXmppUserLocationManager.h"
#include "QXmppUserTuneManager.h"
#include "QXmppCarbonManager.h"
#include "QXmppCarbonManagerV2.h"
#include "QXmppClient.h"
#include "QXmppConfiguration.h"
#include "QXmppDiscoveryIq.h"
#include "QXmppDiscoveryManager.h"
#include "QXmppEntityTimeManager.h"
#include "QXmppError.h"
#include "QXmppExternalServiceDiscoveryManager.h"
#include "QXmppHttpUploadManager.h"
#include "QXmppIq.h"
#include "QXmppLogger.h"
#include "QXmppMamManager.h"
#include "QXmppMessage.h"
#include "QXmppMessageReceiptManager.h"
#include "QXmppMixManager.h"
#include "QXmppPresence.h"
#include "QXmppPubSubManager.h"
#include "QXmppRosterManager.h"
#include "QXmppSasl2UserAgent.h"
#include "QXmppSasl_p.h"
#include "QXmppTransferManager.h"
#include "QXmppUtils.h"
#include "QXmppVCardManager.h"
#include "QXmppVersionManager.h"

#include <QBuffer>
#include <QDir>
#include <QCryptographicHash>
#include <QMessageAuthenticationCode>
#include <QMimeDatabase>
#include "QXmppPubSubBaseItem.h"
#include "QXmppPubSubSubscribeOptions.h"
#include "QXmppPubSubNodeConfig.h"
#include "QXmppPubSubAffiliation.h"
#include "QXmppPubSubSubscription.h"
#include "QXmppPubSubMetadata.h"
#include "QXmppDataForm.h"
#include "QXmppResultSet.h"
#include "QXmppMixInvitation.h"
#include "QXmppVCardIq.h"
#include "QXmppHttpUploadIq.h"
#include "QXmppEntityTimeIq.h"
#include "QXmppExternalService.h"
#include "QXmppMixInfoItem.h"
#include "QXmppMixConfigItem.h"
#include "QXmppMixParticipantItem.h"
#include "QXmppE2eeExtension.h"
#include "QXmppFutureUtils_p.h"

// an application plug-in that announces an identity and a feature; two instances (or one next to QXmppRpcManager) announce the same
// identity twice (C20: what is advertised must be the hash of what is answered, repeated identities included)
class DupIdentity : public QXmppClientExtension
{
public:
    bool named = false;
    QList<QXmppDiscoveryIq::Identity> discoveryIdentities() const override
    {
        QXmppDiscoveryIq::Identity id;
        id.setCategory(named ? u"gateway"_s : u"automation"_s);
        id.setType(named ? u"sms"_s : u"rpc"_s);
        if (named) id.setName(u"SMS relay"_s);
        return { id };
    }
    QStringList discoveryFeatures() const override { return { u"urn:example:plug-in-feature"_s }; }
};

// a stand-in for an end-to-end encryption manager on the sending side (C17): like the OMEMO manager it hands the message back with its
// sensitive fields still set (the client's encrypted send path must write the public part only) and marks it with XEP-0380 only when
// `markAlways` is set or the message has a body; the "ciphertext" is an application element
class FakeE2ee : public QXmppE2eeExtension
{
public:
    bool markAlways = false;
    QXmppTask<MessageEncryptResult> encryptMessage(QXmppMessage &&m, const std::optional<QXmppSendStanzaParams> &) override
    {
        auto out = std::make_unique<QXmppMessage>(std::move(m));
        if (markAlways || !out->body().isEmpty()) out->setEncryptionMethod(QXmpp::Omemo2);
        QXmppElementList ext = out->extensions();
        QDomDocument d;
        d.setContent(QByteArray("<encrypted xmlns='urn:example:fake-e2ee'><payload>Y2lwaGVydGV4dA==</payload></encrypted>"), true);
        ext << QXmppElement(d.documentElement());
        out->setExtensions(ext);
        return QXmpp::Private::makeReadyTask<MessageEncryptResult>(std::move(out));
    }
    QXmppTask<MessageDecryptResult> decryptMessage(QXmppMessage &&) override { return QXmpp::Private::makeReadyTask<MessageDecryptResult>(NotEncrypted {}); }
    QXmppTask<IqEncryptResult> encryptIq(QXmppIq &&, const std::optional<QXmppSendStanzaParams> &) override { return QXmpp::Private::makeReadyTask<IqEncryptResult>(QXmppError { u"not supported"_s, {} }); }
    QXmppTask<IqDecryptResult> decryptIq(const QDomElement &) override { return QXmpp::Private::makeReadyTask<IqDecryptResult>(NotEncrypted {}); }
    bool isEncrypted(const QDomElement &) override { return false; }
    bool isEncrypted(const QXmppMessage &) override { return false; }
};
#include "QXmppGeolocItem.h"
#include "QXmppUserTuneItem.h"
#include "QXmppVCardIq.h"
#include <QCoreApplication>
#include <QElapsedTimer>
#include <QFile>
#include <QSslCertificate>
#include <QSslKey>
#include <QSslSocket>
#include <QRegularExpression>
#include <QTcpServer>
#include <QTimer>
#include <QUuid>
#include <QXmlStreamReader>
#include <iostream>
#include <csignal>
#include <unistd.h>
#include <netinet/in.h>
#include <netinet/tcp.h>
#include <sys/socket.h>
#include <memory>
#include <string>

static std::vector<QJsonObject> *g_journal = nullptr;
struct SigRec {
    int t, c;
    QString name;
};
static std::vector<SigRec> g_signals;
static int g_seq = 0;
static bool g_quietRx = false;
struct AutoReply {
    QString childns, xml;  // $ID is replaced by the id of the element answered
};
static std::vector<AutoReply> g_autoReplies;  // answered from inside the reader: for client calls that block in a nested event loop   // relay mode with very many elements: do not journal each of them
static QByteArray g_certPem, g_keyPem;

static void J(QJsonObject o)
{
    o["t"] = g_seq;
    if (o["ev"].toString() == u"cli_sig") g_signals.push_back({ g_seq, o["c"].toInt(), o["name"].toString() });
    g_seq++;
    g_journal->push_back(std::move(o));
}

// ---------------------------------------------------------------------------------------- server side

struct Conn;
class Listener : public QTcpServer
{
public:
    int clientIndex = 0;
    std::function<void(qintptr)> onIncoming;

protected:
    void incomingConnection(qintptr fd) override { onIncoming(fd); }
};

// one accepted connection of the fake server: incremental XML reader that yields the stream header and complete top-level elements
struct Conn {
    int clientIndex = 0;
    int connIndex = 0;
    QSslSocket *sock = nullptr;
    QXmlStreamReader reader;
    int depth = 0;
    QByteArray cur;           // serialization of the element being read
    std::unique_ptr<QXmlStreamWriter> curWriter;
    QList<QJsonObject> queue; // received, not yet awaited
    bool closed = false;
    bool encrypted = false;
    bool tlsHandshaking = false;
    qint64 rxBytes = 0, txBytes = 0;
    QString lastId;
    QString lastTo;   // the 'to' of the IQ that $ID refers to ($FROMATTR: a reply comes from where the request went)
    QString lastPrevid;
    int smRequestsSent = 0, smAnswersSeen = 0;  // <r/> sent by the script / <a/> received: an <r/>-fence waits until they are equal
    QString lastCaps;  // node#ver of the last <c/> seen in a presence of this connection
    QString smSessionId;  // id of the stream-management session this connection carries
    // server-side XEP-0198 counters (the reference for C09)
    bool smOn = false;
    bool autoAck = false;  // answer the client's <r/> with the server's real count
    int smInbound = 0;   // stanzas received from the client since <enable/>/<resume/>
    int resumeH = -1;    // h announced in <resumed/> (the server's inbound counter continues from there)
    int smLastAck = 0;   // highest h this server has told the client so far (this sm session)
    int smOutbound = 0;  // stanzas delivered to the client on this stream-management session
    int streamNo = 0;

    void resetStream()
    {
        reader.clear();
        depth = 0;
        cur.clear();
        curWriter.reset();
        streamNo++;
    }

    void feed(const QByteArray &bytesIn)
    {
        QByteArray bytes = bytesIn;
        rxBytes += bytes.size();
        if (tlsHandshaking) return;
        // the client opens a new stream whenever it wants to (after TLS, after authentication, after a new header from a hostile
        // server): restart the reader where its header begins
        if (depth >= 1 || reader.error() != QXmlStreamReader::NoError) {
            int at = bytes.indexOf("<?xml");
            if (at < 0) at = bytes.indexOf("<stream:stream");
            if (at >= 0) {
                if (at > 0) feed2(bytes.left(at));
                resetStream();
                bytes = bytes.mid(at);
            }
        }
        feed2(bytes);
    }

    void feed2(const QByteArray &bytes)
    {
        reader.addData(bytes);
        while (!reader.atEnd()) {
            auto tok = reader.readNext();
            if (tok == QXmlStreamReader::Invalid) {
                if (reader.error() == QXmlStreamReader::PrematureEndOfDocumentError) break;
                QJsonObject o { { "ev", "srv_rx_garbage" }, { "c", clientIndex }, { "conn", connIndex }, { "error", reader.errorString() }, { "encrypted", encrypted } };
                J(o);
                reader.clear();
                break;
            }
            if (tok == QXmlStreamReader::StartElement) {
                depth++;
                if (depth == 1) {
                    QJsonObject o { { "ev", "srv_rx" }, { "c", clientIndex }, { "conn", connIndex }, { "kind", "header" }, { "tag", reader.qualifiedName().toString() }, { "encrypted", encrypted }, { "stream", streamNo } };
                    QJsonObject attrs;
                    for (const auto &a : reader.attributes()) attrs[a.qualifiedName().toString()] = a.value().toString();
                    o["attrs"] = attrs;
                    J(o);
                    queue << o;
                    continue;
                }
                if (depth == 2) {
                    cur.clear();
                    curWriter = std::make_unique<QXmlStreamWriter>(&cur);
                }
            }
            if (depth >= 2 && curWriter) {
                curWriter->writeCurrentToken(reader);
            }
            if (tok == QXmlStreamReader::EndElement) {
                if (depth == 2 && curWriter) {
                    curWriter.reset();
                    element(cur);
                }
                depth--;
                if (depth == 0) {
                    QJsonObject o { { "ev", "srv_rx" }, { "c", clientIndex }, { "conn", connIndex }, { "kind", "streamclose" }, { "tag", "/stream:stream" }, { "encrypted", encrypted } };
                    J(o);
                    queue << o;
                }
            }
        }
    }

    void element(const QByteArray &xml)
    {
        QDomDocument d;
        d.setContent(xml, true);
        auto el = d.documentElement();
        const QString tag = el.tagName();
        const QString ns = el.namespaceURI();
        QJsonObject o { { "ev", "srv_rx" }, { "c", clientIndex }, { "conn", connIndex }, { "kind", "element" }, { "tag", tag }, { "ns", ns }, { "xml", QString::fromUtf8(xml) }, { "encrypted", encrypted }, { "stream", streamNo } };
        o["id"] = el.attribute(u"id"_s);
        o["type"] = el.attribute(u"type"_s);
        o["to"] = el.attribute(u"to"_s);
        if (!el.firstChildElement().isNull()) {
            o["child"] = el.firstChildElement().tagName();
            o["childns"] = el.firstChildElement().namespaceURI();
        }
        if (tag == u"presence") {
            for (auto c = el.firstChildElement(); !c.isNull(); c = c.nextSiblingElement())
                if (c.tagName() == u"c" && c.namespaceURI() == u"http://jabber.org/protocol/caps") lastCaps = c.attribute(u"node"_s) + u'#' + c.attribute(u"ver"_s);
        }
        const bool stanza = (tag == u"message" || tag == u"presence" || tag == u"iq");
        if (smOn && stanza) {
            smInbound++;
        }
        o["sm_inbound"] = smInbound;
        if (g_quietRx) {
            queue << o;
            if (!el.attribute(u"id"_s).isEmpty() && tag == u"iq") {
                lastId = el.attribute(u"id"_s);
                lastTo = el.attribute(u"to"_s);
            }
            return;
        }
        if (tag == u"a" && ns == u"urn:xmpp:sm:3") {
            o["h"] = el.attribute(u"h"_s);
            smAnswersSeen++;
        }
        if (tag == u"resume" && ns == u"urn:xmpp:sm:3") {
            o["h"] = el.attribute(u"h"_s);
            o["previd"] = el.attribute(u"previd"_s);
            lastPrevid = el.attribute(u"previd"_s);
        }
        J(o);
        queue << o;
        if (!el.attribute(u"id"_s).isEmpty() && tag == u"iq") {
            lastId = el.attribute(u"id"_s);
            lastTo = el.attribute(u"to"_s);
        }
        for (const auto &ar : g_autoReplies) {
            if (tag == u"iq" && (o["type"].toString() == u"get" || o["type"].toString() == u"set") && o["childns"].toString() == ar.childns) {
                QString x = ar.xml;
                x.replace(u"$ID"_s, el.attribute(u"id"_s));
                J({ { "ev", "srv_tx" }, { "c", clientIndex }, { "conn", connIndex }, { "xml", x }, { "autoreply", true } });
                send(x.toUtf8());
            }
        }
        if (autoAck && smOn && tag == u"r" && ns == u"urn:xmpp:sm:3") {
            const QByteArray a = "<a xmlns='urn:xmpp:sm:3' h='" + QByteArray::number(smInbound) + "'/>";
            J({ { "ev", "srv_tx" }, { "c", clientIndex }, { "conn", connIndex }, { "xml", QString::fromUtf8(a) }, { "auto", true } });
            send(a);
        }
    }

    void send(const QByteArray &data)
    {
        if (!sock || closed) return;
        smRequestsSent += data.count("<r xmlns='urn:xmpp:sm:3'/>") + data.count("<r xmlns=\"urn:xmpp:sm:3\"/>");
        txBytes += data.size();
        sock->write(data);
        sock->flush();
    }
};

// ---------------------------------------------------------------------------------------- client side

struct Cli {
    int index = 0;
    std::unique_ptr<QXmppClient> client;
    std::unique_ptr<Listener> listener;
    QList<Conn *> conns;
    QObject ctx;
    QXmppConfiguration config;
    int signalCount = 0;
    QMap<QString, QBuffer *> recvBuffers;
    QMap<QString, QXmppTransferJob *> jobs;
    bool destroying = false;
    int sigMark = 0;     // journal position of the last connect / cut / disconnect: wait_signal only looks at later signals
    int expectConn = 0;  // index of the connection the script currently talks about (set by 'connect')
    Conn *current() { return conns.size() > expectConn ? conns.last() : nullptr; }
};

static QString msgXml(const QXmppMessage &m)
{
    QByteArray out;
    QXmlStreamWriter w(&out);
    m.toXml(&w);
    return QString::fromUtf8(out);
}

static QString errText(const QXmppError &e)
{
    return e.description;
}

// ---------------------------------------------------------------------------------------- server side SCRAM (RFC 5802), Qt primitives only
static QCryptographicHash::Algorithm scramAlgo(const QString &mech)
{
    if (mech == u"SCRAM-SHA-1") return QCryptographicHash::Sha1;
    if (mech == u"SCRAM-SHA-256") return QCryptographicHash::Sha256;
    if (mech == u"SCRAM-SHA-512") return QCryptographicHash::Sha512;
    return QCryptographicHash::RealSha3_512;
}
static QByteArray scramHmac(QCryptographicHash::Algorithm a, const QByteArray &key, const QByteArray &msg) { return QMessageAuthenticationCode::hash(msg, key, a); }
static QByteArray scramHi(QCryptographicHash::Algorithm a, const QByteArray &pw, const QByteArray &salt, int iters)
{
    QByteArray u = scramHmac(a, pw, salt + QByteArray::fromHex("00000001"));
    QByteArray out = u;
    for (int i = 1; i < iters; i++) {
        u = scramHmac(a, pw, u);
        for (int k = 0; k < out.size(); k++) out[k] = char(out[k] ^ u[k]);
    }
    return out;
}
static QMap<QByteArray, QByteArray> scramFields(const QByteArray &msg)
{
    QMap<QByteArray, QByteArray> m;
    for (const auto &part : msg.split(','))
        if (part.size() >= 2 && part[1] == '=') m[part.left(1)] = part.mid(2);
    return m;
}

// C19, SOCKS5 bytestreams: a transparent TCP hop between the receiver and the sender's SOCKS5 server. The relay rewrites the
// stream host offer to point here; the SOCKS5 negotiation passes untouched, the payload behind it gets one fault.
struct SocksTamper : QObject {
    QTcpServer server;
    QString upstreamHost;
    quint16 upstreamPort = 0;
    QJsonObject fault;
    bool injected = false;
    qint64 payloadSeen = 0;

    struct Pipe {
        QTcpSocket *down = nullptr, *up = nullptr;
        QByteArray hs;      // bytes of the server's negotiation seen so far
        int hsNeed = 2;     // grows once the connect reply's address type is known
        int stage = 0;      // 0: method selection, 1: connect reply, 2: payload
    };

    SocksTamper()
    {
        server.listen(QHostAddress(QHostAddress::LocalHost), 0);
        QObject::connect(&server, &QTcpServer::newConnection, this, [this]() {
            while (auto *down = server.nextPendingConnection()) {
                auto *p = new Pipe;
                p->down = down;
                p->up = new QTcpSocket(this);
                p->up->connectToHost(upstreamHost, upstreamPort);
                QObject::connect(down, &QTcpSocket::readyRead, this, [p]() { p->up->write(p->down->readAll()); });
                QObject::connect(down, &QTcpSocket::disconnected, this, [p]() { p->up->disconnectFromHost(); });
                QObject::connect(p->up, &QTcpSocket::readyRead, this, [this, p]() { fromServer(p, p->up->readAll()); });
                QObject::connect(p->up, &QTcpSocket::disconnected, this, [this, p]() {
                    if (fault["kind"].toString() == u"append" && !injected) {
                        injected = true;
                        J({ { "ev", "fault_injected" }, { "kind", "append" }, { "at", double(payloadSeen) } });
                        p->down->write(QByteArray(fault["len"].toInt(1), 'Z'));
                    }
                    p->down->flush();
                    p->down->disconnectFromHost();
                });
            }
        });
    }

    void fromServer(Pipe *p, QByteArray data)
    {
        // pass the negotiation through unchanged
        while (p->stage < 2 && !data.isEmpty()) {
            const int take = qMin(int(data.size()), p->hsNeed - int(p->hs.size()));
            p->hs += data.left(take);
            p->down->write(data.left(take));
            data = data.mid(take);
            if (p->stage == 1 && p->hs.size() == 5 && p->hsNeed == 5) {
                const int atyp = quint8(p->hs[3]);
                p->hsNeed = 4 + (atyp == 3 ? 1 + quint8(p->hs[4]) : atyp == 4 ? 16 : 4) + 2;
            }
            if (p->hs.size() == p->hsNeed) {
                p->stage++;
                p->hs.clear();
                p->hsNeed = 5;
            }
        }
        if (data.isEmpty()) return;
        const QString kind = fault["kind"].toString();
        const qint64 at = qint64(fault["at"].toDouble(0));
        const int len = qMax(1, fault["len"].toInt(1));
        const qint64 start = payloadSeen;
        payloadSeen += data.size();
        if (!injected && !kind.isEmpty() && kind != u"append" && at >= start && at < start + data.size()) {
            injected = true;
            J({ { "ev", "fault_injected" }, { "kind", kind }, { "at", double(at) } });
            const int off = int(at - start);
            if (kind == u"drop") data.remove(off, len);
            else if (kind == u"flip") data[off] = char(data[off] ^ (1 << (fault["bit"].toInt(0) % 8)));
            else if (kind == u"duplicate") data.insert(off, data.mid(off, len));
            else if (kind == u"earlyclose") {
                p->down->write(data.left(off));
                p->down->flush();
                p->down->disconnectFromHost();
                p->up->abort();
                return;
            }
        }
        p->down->write(data);
    }
};

struct Case {
    std::unique_ptr<SocksTamper> socksTamper;
    std::vector<std::unique_ptr<Cli>> clis;
    QMap<QString, QString> vars;
    int defaultTimeout = 3000;

    ~Case()
    {
        for (auto &c : clis) {
            c->destroying = true;
            c->client.reset();
            for (auto *cn : c->conns) {
                if (cn->sock) {
                    cn->sock->disconnect();
                    cn->sock->abort();
                    cn->sock->deleteLater();
                }
                delete cn;
            }
        }
        QCoreApplication::sendPostedEvents(nullptr, QEvent::DeferredDelete);
        QCoreApplication::processEvents();
    }

    Cli &cli(const QJsonObject &st)
    {
        size_t k = size_t(st["c"].toInt(0));
        while (clis.size() <= k) {
            auto c = std::make_unique<Cli>();
            c->index = int(clis.size());
            setupListener(*c);
            clis.push_back(std::move(c));
        }
        return *clis[k];
    }

    void setupListener(Cli &c)
    {
        c.listener = std::make_unique<Listener>();
        c.listener->clientIndex = c.index;
        Cli *cp = &c;
        c.listener->onIncoming = [this, cp](qintptr fd) {
            auto *cn = new Conn;
            cn->clientIndex = cp->index;
            cn->connIndex = cp->conns.size();
            cn->sock = new QSslSocket;
            cn->sock->setSocketDescriptor(fd);
            cp->conns << cn;
            J({ { "ev", "srv_accept" }, { "c", cp->index }, { "conn", cn->connIndex } });
            cn->sock->setSocketOption(QAbstractSocket::LowDelayOption, 1);
            // the client's small writes are subject to Nagle: acknowledge at once instead of after the delayed-ACK timer (40 ms)
            auto quickAck = [fd]() {
                int one = 1;
                setsockopt(int(fd), IPPROTO_TCP, TCP_QUICKACK, &one, sizeof(one));
            };
            quickAck();
            QObject::connect(cn->sock, &QSslSocket::readyRead, [cn, quickAck]() {
                quickAck();
                cn->feed(cn->sock->readAll());
            });
            QObject::connect(cn->sock, &QSslSocket::disconnected, [cn]() {
                if (!cn->closed) J({ { "ev", "srv_peer_closed" }, { "c", cn->clientIndex }, { "conn", cn->connIndex } });
                cn->closed = true;
            });
            QObject::connect(cn->sock, &QSslSocket::encrypted, [cn]() {
                cn->encrypted = true;
                cn->tlsHandshaking = false;
                cn->resetStream();
                J({ { "ev", "srv_tls_established" }, { "c", cn->clientIndex }, { "conn", cn->connIndex } });
                // data that arrived with the handshake completion
                if (cn->sock->bytesAvailable()) cn->feed(cn->sock->readAll());
            });
        };
        c.listener->listen(QHostAddress::LocalHost, 0);
    }

    bool spinUntil(std::function<bool()> done, int ms)
    {
        QElapsedTimer t;
        t.start();
        QTimer wake;
        wake.start(1);
        while (!done()) {
            QCoreApplication::processEvents(QEventLoop::AllEvents | QEventLoop::WaitForMoreEvents);
            if (t.elapsed() > ms) return false;
        }
        return true;
    }

    qint64 activity()
    {
        qint64 a = g_seq;
        for (auto &c : clis) {
            a += c->signalCount;
            for (auto *cn : c->conns) a += cn->rxBytes + cn->txBytes + (cn->sock && !cn->closed ? cn->sock->bytesAvailable() + cn->sock->bytesToWrite() : 0);
        }
        return a;
    }

    // idle settle: no journal entry, no byte in either direction for `quiet` ms
    void settle(int quiet = 25, int maxMs = 3000)
    {
        QElapsedTimer total, q;
        total.start();
        q.start();
        qint64 last = activity();
        QTimer wake;
        wake.start(1);
        while (total.elapsed() < maxMs) {
            QCoreApplication::processEvents(QEventLoop::AllEvents | QEventLoop::WaitForMoreEvents);
            QCoreApplication::sendPostedEvents(nullptr, QEvent::DeferredDelete);
            qint64 now = activity();
            if (now != last) {
                last = now;
                q.restart();
            } else if (q.elapsed() >= quiet) {
                return;
            }
        }
    }

    // the latest earlier connection that carried the stream-management session the client asks to resume
    Conn *prevSessionConn(Conn *cn)
    {
        auto &c = *clis[size_t(cn->clientIndex)];
        for (int i = cn->connIndex - 1; i >= 0; i--) {
            if (!cn->lastPrevid.isEmpty() && c.conns[i]->smSessionId == cn->lastPrevid) return c.conns[i];
        }
        return nullptr;
    }
    int prevInbound(Conn *cn)
    {
        auto *p = prevSessionConn(cn);
        return p ? p->smInbound : 0;
    }

    QString subst(QString s, Conn *cn)
    {
        if (cn) {
            s.replace(u"$ID"_s, cn->lastId);
            s.replace(u"$FROMATTR"_s, cn->lastTo.isEmpty() ? QString() : u" from='"_s + cn->lastTo.toHtmlEscaped() + u"'"_s);
            s.replace(u"$CONN"_s, QString::number(cn->connIndex));
            s.replace(u"$PREVID"_s, cn->lastPrevid);
            s.replace(u"$CAPS"_s, cn->lastCaps.toHtmlEscaped().replace(u'\'', u"&apos;"_s));
            s.replace(u"$PORT"_s, QString::number(clis[size_t(cn->clientIndex)]->listener->serverPort()));
            if (s.contains(u"$HREL:")) {
                auto &c = *clis[size_t(cn->clientIndex)];
                const int prevCount = prevInbound(cn);
                auto *pc = prevSessionConn(cn);
                const int prevAck = pc ? pc->smLastAck : 0;
                Q_UNUSED(c);
                int hAll = prevCount, hSome = qMax(prevAck, prevCount - 1), hNone = prevAck, hStale = qMax(0, prevAck - 1);
                s.replace(u"$HREL:all"_s, QString::number(hAll));
                s.replace(u"$HREL:some"_s, QString::number(hSome));
                s.replace(u"$HREL:none"_s, QString::number(hNone));
                s.replace(u"$HREL:stale"_s, QString::number(hStale));
                QRegularExpression re(u"<resumed[^>]* h='(\\d+)'"_s);
                auto m = re.match(s);
                if (m.hasMatch()) {
                    cn->smLastAck = qMax(prevAck, m.captured(1).toInt());
                    cn->resumeH = m.captured(1).toInt();
                }
            }
            s.replace(u"$SMIN_PREV"_s, QString::number(prevInbound(cn)));
            s.replace(u"$SMIN"_s, QString::number(cn->smInbound));
        }
        for (auto it = vars.begin(); it != vars.end(); ++it) s.replace(u"$"_s + it.key(), it.value());
        return s;
    }

    void makeClient(Cli &c, const QJsonObject &st)
    {
        c.client = std::make_unique<QXmppClient>(st["bare"].toBool() ? QXmppClient::NoExtensions : QXmppClient::BasicExtensions);
        auto *cl = c.client.get();
        Cli *cp = &c;
        auto sig = [cp](const char *name, QJsonObject extra = {}) {
            cp->signalCount++;
            extra["ev"] = "cli_sig";
            extra["c"] = cp->index;
            extra["name"] = QString::fromLatin1(name);
            J(extra);
        };
        QObject::connect(cl, &QXmppClient::connected, &c.ctx, [=]() { sig("connected", { { "sm", int(cp->client->streamManagementState()) }, { "state", int(cp->client->state()) }, { "authenticated", cp->client->isAuthenticated() } }); });
        QObject::connect(cl, &QXmppClient::disconnected, &c.ctx, [=]() { sig("disconnected"); });
        QObject::connect(cl, &QXmppClient::stateChanged, &c.ctx, [=](QXmppClient::State s) { sig("stateChanged", { { "state", int(s) } }); });
        QObject::connect(cl, &QXmppClient::errorOccurred, &c.ctx, [=](const QXmppError &e) { sig("errorOccurred", { { "text", errText(e) } }); });
        QObject::connect(cl, &QXmppClient::messageReceived, &c.ctx, [=](const QXmppMessage &m) {
            sig("messageReceived", { { "xml", msgXml(m) }, { "from", m.from() }, { "to", m.to() }, { "id", m.id() }, { "body", m.body() }, { "carbon", m.isCarbonForwarded() } });
        });
        QObject::connect(cl, &QXmppClient::presenceReceived, &c.ctx, [=](const QXmppPresence &p) { sig("presenceReceived", { { "from", p.from() }, { "type", int(p.type()) } }); });
        QObject::connect(cl, &QXmppClient::iqReceived, &c.ctx, [=](const QXmppIq &iq) { sig("iqReceived", { { "id", iq.id() }, { "type", int(iq.type()) } }); });
        for (auto v : st["managers"].toArray()) {
            const QString m = v.toString();
            if (m == u"dupident" || m == u"dupident-named") {
                auto *e = new DupIdentity;
                e->named = m.endsWith(u"named");
                cl->addExtension(e);
            } else if (m == u"fakee2ee" || m == u"fakee2ee-mark") {
                auto *e = new FakeE2ee;
                e->markAlways = m.endsWith(u"mark");
                cl->setEncryptionExtension(e);
            } else if (m == u"carbons2") cl->addNewExtension<QXmppCarbonManagerV2>();
            else if (m == u"carbons1") {
                auto *cm = cl->addNewExtension<QXmppCarbonManager>();
                QObject::connect(cm, &QXmppCarbonManager::messageReceived, &c.ctx, [=](const QXmppMessage &mm) {
                    sig("carbon1.messageReceived", { { "xml", msgXml(mm) }, { "from", mm.from() }, { "to", mm.to() }, { "id", mm.id() }, { "body", mm.body() }, { "carbon", mm.isCarbonForwarded() } });
                });
                QObject::connect(cm, &QXmppCarbonManager::messageSent, &c.ctx, [=](const QXmppMessage &mm) {
                    sig("carbon1.messageSent", { { "xml", msgXml(mm) }, { "from", mm.from() }, { "to", mm.to() }, { "id", mm.id() }, { "body", mm.body() }, { "carbon", mm.isCarbonForwarded() } });
                });
            } else if (m == u"mam") cl->addNewExtension<QXmppMamManager>();
            else if (m == u"pubsub") cl->addNewExtension<QXmppPubSubManager>();
            else if (m == u"blocking") cl->addNewExtension<QXmppBlockingManager>();
            else if (m == u"upload") cl->addNewExtension<QXmppHttpUploadManager>();
            else if (m == u"extdisco") cl->addNewExtension<QXmppExternalServiceDiscoveryManager>();
            else if (m == u"mix") {
                // an application reads what the manager hands it
                auto *mm = cl->addNewExtension<QXmppMixManager>();
                QObject::connect(mm, &QXmppMixManager::channelConfigurationUpdated, &c.ctx, [=](const QString &jid, const QXmppMixConfigItem &item) {
                    sig("mix.channelConfigurationUpdated", { { "jid", jid }, { "lastEditor", item.lastEditorJid() }, { "owners", item.ownerJids().join(u',') } });
                });
                QObject::connect(mm, &QXmppMixManager::channelInformationUpdated, &c.ctx, [=](const QString &jid, const QXmppMixInfoItem &item) {
                    sig("mix.channelInformationUpdated", { { "jid", jid }, { "name", item.name() }, { "contacts", item.contactJids().join(u',') } });
                });
                QObject::connect(mm, &QXmppMixManager::participantReceived, &c.ctx, [=](const QString &jid, const QXmppMixParticipantItem &item) {
                    sig("mix.participantReceived", { { "jid", jid }, { "nick", item.nick() }, { "pjid", item.jid() } });
                });
            }
            else if (m == u"receipts") cl->addNewExtension<QXmppMessageReceiptManager>();
            else if (m == u"time") cl->addNewExtension<QXmppEntityTimeManager>();
            else if (m == u"muc") cl->addNewExtension<QXmppMucManager>();
            else if (m == u"bookmarks") cl->addNewExtension<QXmppBookmarkManager>();
            else if (m == u"attention") cl->addNewExtension<QXmppAttentionManager>();
            else if (m == u"jmi") cl->addNewExtension<QXmppJingleMessageInitiationManager>();
            else if (m == u"callinvite") cl->addNewExtension<QXmppCallInviteManager>();
            else if (m == u"rpc") cl->addNewExtension<QXmppRpcManager>();
            else if (m == u"registration") cl->addNewExtension<QXmppRegistrationManager>();
            else if (m == u"archive") cl->addNewExtension<QXmppArchiveManager>();
            else if (m == u"location") cl->addNewExtension<QXmppUserLocationManager>();
            else if (m == u"tune") cl->addNewExtension<QXmppUserTuneManager>();
            else if (m == u"moved") cl->addNewExtension<QXmppMovedManager>();
            else if (m == u"uploadrequest") cl->addNewExtension<QXmppUploadRequestManager>();
            else if (m == u"roster") cl->addNewExtension<QXmppRosterManager>(cl);
            else if (m == u"vcard") cl->addNewExtension<QXmppVCardManager>();
            else if (m == u"version") cl->addNewExtension<QXmppVersionManager>();
            else if (m == u"disco") cl->addNewExtension<QXmppDiscoveryManager>();
            else if (m == u"transfer") {
                auto *tm = cl->addNewExtension<QXmppTransferManager>();
                const QString methods = st["transferMethods"].toString(u"ibb"_s);
                tm->setSupportedMethods(methods == u"socks" ? QXmppTransferJob::Methods(QXmppTransferJob::SocksMethod) : methods == u"any" ? QXmppTransferJob::Methods(QXmppTransferJob::AnyMethod) : QXmppTransferJob::Methods(QXmppTransferJob::InBandMethod));
#ifdef QXMPP_VERIF_HOOKS
                if (st.contains("ibbBlockSize")) tm->verifSetIbbBlockSize(st["ibbBlockSize"].toInt());
#endif
                const int recvJunk = st["recvToFile"].toInt(-1);   // >= 0: accept into a file path at which a file of that many bytes already exists
                QObject::connect(tm, &QXmppTransferManager::fileReceived, &c.ctx, [=](QXmppTransferJob *job) {
                    if (recvJunk >= 0) {
                        const QString path = QDir::tempPath() + u"/verif-recv-%1-%2.bin"_s.arg(QCoreApplication::applicationPid()).arg(quintptr(job), 0, 16);
                        {
                            QFile f(path);
                            if (f.open(QIODevice::WriteOnly | QIODevice::Truncate)) f.write(QByteArray(recvJunk, '\x5a'));
                        }
                        cp->jobs[u"recv:"_s + job->sid()] = job;
                        sig("fileReceived", { { "sid", job->sid() }, { "size", double(job->fileSize()) }, { "path", path } });
                        QObject::connect(job, &QXmppTransferJob::finished, &cp->ctx, [=]() {
                            QFile f(path);
                            QByteArray data;
                            if (f.open(QIODevice::ReadOnly)) data = f.readAll();
                            f.close();
                            QFile::remove(path);
                            sig("recvJobFinished", { { "sid", job->sid() }, { "error", int(job->error()) }, { "state", int(job->state()) }, { "data", QString::fromLatin1(data.toHex()) }, { "toFile", true } });
                        });
                        job->accept(path);
                        return;
                    }
                    auto *buf = new QBuffer(job);
                    buf->open(QIODevice::WriteOnly);
                    cp->recvBuffers[job->sid()] = buf;
                    cp->jobs[u"recv:"_s + job->sid()] = job;
                    sig("fileReceived", { { "sid", job->sid() }, { "size", double(job->fileSize()) } });
                    QObject::connect(job, &QXmppTransferJob::finished, &cp->ctx, [=]() {
                        sig("recvJobFinished", { { "sid", job->sid() }, { "error", int(job->error()) }, { "state", int(job->state()) }, { "data", QString::fromLatin1(buf->data().toHex()) } });
                    });
                    job->accept(buf);
                });
            }
        }
        if (auto *rm = cl->findExtension<QXmppRosterManager>()) {
            QObject::connect(rm, &QXmppRosterManager::rosterReceived, &c.ctx, [=]() { sig("rosterReceived"); });
            QObject::connect(rm, &QXmppRosterManager::itemAdded, &c.ctx, [=](const QString &j) { sig("roster.itemAdded", { { "jid", j } }); });
            QObject::connect(rm, &QXmppRosterManager::itemChanged, &c.ctx, [=](const QString &j) { sig("roster.itemChanged", { { "jid", j } }); });
            QObject::connect(rm, &QXmppRosterManager::itemRemoved, &c.ctx, [=](const QString &j) { sig("roster.itemRemoved", { { "jid", j } }); });
        }
        if (auto *dm = cl->findExtension<QXmppDiscoveryManager>()) {
            if (st.contains("clientName")) dm->setClientName(st["clientName"].toString());
            if (st.contains("clientType")) dm->setClientType(st["clientType"].toString());
            if (st.contains("clientCategory")) dm->setClientCategory(st["clientCategory"].toString());
            if (st.contains("capsNode")) dm->setClientCapabilitiesNode(st["capsNode"].toString());
            if (st.contains("infoForm")) {
                QXmppDataForm form;
                form.setType(QXmppDataForm::Result);
                QList<QXmppDataForm::Field> fields;
                for (auto fv : st["infoForm"].toArray()) {
                    const auto fo = fv.toObject();
                    const auto vals = fo["values"].toArray();
                    QXmppDataForm::Field f;
                    f.setKey(fo["var"].toString());
                    if (fo["var"].toString() == u"FORM_TYPE") {
                        f.setType(QXmppDataForm::Field::HiddenField);
                        f.setValue(vals.at(0).toString());
                    } else if (vals.size() > 1) {
                        f.setType(QXmppDataForm::Field::ListMultiField);
                        QStringList l;
                        for (auto v : vals) l << v.toString();
                        f.setValue(l);
                    } else {
                        f.setType(QXmppDataForm::Field::TextSingleField);
                        f.setValue(vals.at(0).toString());
                    }
                    fields << f;
                }
                form.setFields(fields);
                dm->setClientInfoForm(form);
            }
        }
    }

    void configure(Cli &c, const QJsonObject &st)
    {
        QXmppConfiguration cfg;
        cfg.setJid(st["jid"].toString(u"alice@example.org/res1"_s));
        cfg.setPassword(st["password"].toString(u"secret-pw-1234"_s));
        cfg.setHost(u"127.0.0.1"_s);
        cfg.setPort(c.listener->serverPort());
        cfg.setAutoReconnectionEnabled(false);
        cfg.setKeepAliveInterval(st["keepAlive"].toInt(0));
        cfg.setIgnoreSslErrors(true);
        const QString tls = st["tls"].toString(u"disabled"_s);
        cfg.setStreamSecurityMode(tls == u"required" ? QXmppConfiguration::TLSRequired : tls == u"enabled" ? QXmppConfiguration::TLSEnabled : QXmppConfiguration::TLSDisabled);
        if (st.contains("sasl2")) cfg.setUseSasl2Authentication(st["sasl2"].toBool());
        if (st.contains("sasl")) cfg.setUseSASLAuthentication(st["sasl"].toBool());
        if (st.contains("nonsasl")) cfg.setUseNonSASLAuthentication(st["nonsasl"].toBool());
        if (st.contains("nonsaslMech")) cfg.setNonSASLAuthMechanism(st["nonsaslMech"].toString() == u"plain" ? QXmppConfiguration::NonSASLPlain : QXmppConfiguration::NonSASLDigest);
        if (st.contains("fast")) cfg.setUseFastTokenAuthentication(st["fast"].toBool());
        if (st.contains("mechanism")) cfg.setSaslAuthMechanism(st["mechanism"].toString());
        if (st.contains("disabled")) {
            QList<QString> d;
            for (auto v : st["disabled"].toArray()) d << v.toString();
            cfg.setDisabledSaslMechanisms(d);
        }
        if (st["userAgent"].toBool()) cfg.setSasl2UserAgent(QXmppSasl2UserAgent(QUuid::fromString(u"d4565fa7-4d72-4749-b3d3-740edbf87770"_s), u"QXmpp"_s, u"verif"_s));
        if (st.contains("token")) {
            auto t = st["token"].toObject();
            if (auto m = QXmpp::Private::SaslHtMechanism::fromString(t["mech"].toString()))
                cfg.credentialData().htToken = QXmpp::Private::HtToken { *m, t["secret"].toString(), QDateTime() };
        }
        c.config = cfg;
    }

    // returns false if the step stalled
    bool step(const QJsonObject &st, int idx)
    {
        const QString op = st["op"].toString();
        const int timeout = st["timeout"].toInt(defaultTimeout);
        if (op == u"client") {
            auto &c = cli(st);
            makeClient(c, st);
            configure(c, st);
            return true;
        }
        if (op == u"connect") {
            auto &c = cli(st);
            if (st.contains("jid") || st.contains("password")) configure(c, st);
            if (st["ownConfig"].toBool()) {
                // the application reconnects with the configuration the client holds by now (incl. credentials the library stored itself,
                // e.g. a FAST token issued or rotated by the server)
                c.config = c.client->configuration();
                c.config.setHost(u"127.0.0.1"_s);
            }
            c.config.setPort(c.listener->serverPort());
            c.expectConn = c.conns.size();
            c.sigMark = g_seq;
            c.client->connectToServer(c.config);
            return true;
        }
        if (op == u"disconnect") {
            cli(st).sigMark = g_seq;
            cli(st).client->disconnectFromServer();
            return true;
        }
        if (op == u"destroy") {
            cli(st).destroying = true;
            cli(st).client.reset();
            return true;
        }
        if (op == u"settle") {
            settle(st["quiet"].toInt(25), timeout);
            return true;
        }
        if (op == u"send") {  // server -> client
            auto &c = cli(st);
            auto *cn = c.current();
            if (!cn || cn->closed) {
                J({ { "ev", "step_skipped" }, { "step", idx }, { "why", "no open connection" } });
                return true;
            }
            const QByteArray data = subst(st["xml"].toString(), cn).toUtf8();
            const bool smWasOn = cn->smOn;
            if (st["restart"].toBool()) cn->resetStream();
            if (st["smOn"].toBool()) {
                cn->autoAck = !st["manualAck"].toBool();
                cn->smOn = true;
                cn->smInbound = st["smResume"].toBool() ? prevInbound(cn) : st["smInbound"].toInt(0);
                auto *pc = st["smResume"].toBool() ? prevSessionConn(cn) : nullptr;
                cn->smOutbound = pc ? pc->smOutbound : 0;
                cn->smSessionId = st["smResume"].toBool() ? cn->lastPrevid : u"smid-%1"_s.arg(cn->connIndex);
                if (st["smResume"].toBool() && cn->resumeH >= 0) cn->smInbound = cn->resumeH;
            }
            if (smWasOn) {
                // count the stanzas this step delivers (the reference for the client's <a h/> and <resume h/>)
                QDomDocument wd;
                if (wd.setContent("<w xmlns='jabber:client'>" + data + "</w>", true)) {
                    for (auto e = wd.documentElement().firstChildElement(); !e.isNull(); e = e.nextSiblingElement()) {
                        if (e.tagName() == u"message" || e.tagName() == u"presence" || e.tagName() == u"iq") cn->smOutbound++;
                    }
                }
            }
            J({ { "ev", "srv_tx" }, { "c", c.index }, { "conn", cn->connIndex }, { "xml", QString::fromUtf8(data) }, { "encrypted", cn->encrypted }, { "sm_outbound", cn->smOutbound }, { "sm_session", cn->smSessionId } });
            if (st.contains("chunks")) {
                // deliver in given chunk sizes with a drain in between
                int pos = 0;
                for (auto v : st["chunks"].toArray()) {
                    int n = v.toInt();
                    cn->send(data.mid(pos, n));
                    pos += n;
                    settle(3, 200);
                }
                if (pos < data.size()) cn->send(data.mid(pos));
            } else {
                cn->send(data);
            }
            bool tlsRequested = true;
            if (st.contains("ifRequested")) {
                tlsRequested = false;
                for (const auto &o : cn->queue)
                    if (o["tag"].toString() == st["ifRequested"].toString()) tlsRequested = true;
            }
            if (st["startTls"].toBool() && !cn->encrypted && tlsRequested) {
                // <proceed/> has just been written: switch to TLS before the ClientHello can be read as XML
                cn->queue.clear();
                cn->tlsHandshaking = true;
                cn->sock->setLocalCertificate(QSslCertificate(g_certPem));
                cn->sock->setPrivateKey(QSslKey(g_keyPem, QSsl::Rsa));
                cn->sock->setPeerVerifyMode(QSslSocket::VerifyNone);
                cn->sock->startServerEncryption();
                bool ok = spinUntil([&] { return cn->encrypted || cn->closed; }, timeout);
                if (!ok || !cn->encrypted) J({ { "ev", "await_failed" }, { "step", idx }, { "tag", "tls" }, { "closed", cn->closed }, { "timeout", !ok } });
                else spinUntil([&] { return !cn->queue.isEmpty() || cn->closed; }, 500);
            }
            return true;
        }
        if (op == u"await") {  // server waits for an element from the client
            auto &c = cli(st);
            const QString tag = st["tag"].toString();
            const QString child = st["child"].toString();
            const QJsonObject react = st["react"].toObject();
            QJsonObject found;
            bool ok = spinUntil([&] {
                auto *cn = c.current();
                if (!cn) return false;
                while (!cn->queue.isEmpty()) {
                    auto o = cn->queue.takeFirst();
                    if ((tag.isEmpty() || o["tag"].toString() == tag) && (child.isEmpty() || o["child"].toString() == child)) {
                        found = o;
                        return true;
                    }
                    // elements the script answers in passing while it waits for something else
                    if (react.contains(o["tag"].toString())) {
                        const QByteArray data = subst(react[o["tag"].toString()].toString(), cn).toUtf8();
                        J({ { "ev", "srv_tx" }, { "c", c.index }, { "conn", cn->connIndex }, { "xml", QString::fromUtf8(data) }, { "react", true } });
                        cn->send(data);
                    }
                }
                return cn->closed;
            }, timeout);
            if (found.isEmpty()) {
                auto *cn = c.current();
                J({ { "ev", "await_failed" }, { "step", idx }, { "tag", tag }, { "closed", cn ? cn->closed : false }, { "timeout", !ok } });
                return false;
            }
            if (st.contains("var")) vars[st["var"].toString()] = found["id"].toString();
            // $ID in the next send refers to the element that was awaited, not to whatever IQ happened to arrive last
            if (auto *cn2 = c.current(); cn2 && !found["id"].toString().isEmpty()) {
                cn2->lastId = found["id"].toString();
                cn2->lastTo = found["to"].toString();
            }
            return true;
        }
        if (op == u"await_accept") {
            auto &c = cli(st);
            const int want = st.contains("rel") ? c.expectConn + st["rel"].toInt() : st["conn"].toInt(c.conns.size());
            bool ok = spinUntil([&] { return c.conns.size() > want; }, timeout);
            if (!ok) J({ { "ev", "await_failed" }, { "step", idx }, { "tag", "accept" }, { "timeout", true } });
            return ok;
        }
        if (op == u"starttls") {  // server side handshake
            auto &c = cli(st);
            auto *cn = c.current();
            if (!cn || cn->closed) return true;
            cn->tlsHandshaking = true;
            cn->sock->setLocalCertificate(QSslCertificate(g_certPem));
            cn->sock->setPrivateKey(QSslKey(g_keyPem, QSsl::Rsa));
            cn->sock->setPeerVerifyMode(QSslSocket::VerifyNone);
            cn->sock->startServerEncryption();
            bool ok = spinUntil([&] { return cn->encrypted || cn->closed; }, timeout);
            if (!ok || !cn->encrypted) J({ { "ev", "await_failed" }, { "step", idx }, { "tag", "tls" }, { "closed", cn->closed }, { "timeout", !ok } });
            return cn->encrypted;
        }
        if (op == u"starttls_if_requested") {
            // server side of STARTTLS, only when the client has asked for it (otherwise the step is a no-op)
            auto &c = cli(st);
            auto *cn = c.current();
            if (!cn || cn->closed || cn->encrypted) return true;
            bool asked = false;
            for (const auto &o : cn->queue) {
                if (o["tag"].toString() == u"starttls") asked = true;
            }
            if (!asked) {
                J({ { "ev", "step_skipped" }, { "step", idx }, { "why", "client did not request STARTTLS" } });
                return true;
            }
            cn->queue.clear();
            cn->tlsHandshaking = true;
            cn->sock->setLocalCertificate(QSslCertificate(g_certPem));
            cn->sock->setPrivateKey(QSslKey(g_keyPem, QSsl::Rsa));
            cn->sock->setPeerVerifyMode(QSslSocket::VerifyNone);
            cn->sock->startServerEncryption();
            bool ok = spinUntil([&] { return cn->encrypted || cn->closed; }, timeout);
            if (!ok || !cn->encrypted) J({ { "ev", "await_failed" }, { "step", idx }, { "tag", "tls" }, { "closed", cn->closed }, { "timeout", !ok } });
            // the client opens a new stream over TLS
            spinUntil([&] { return !cn->queue.isEmpty() || cn->closed; }, 500);
            return true;
        }
        if (op == u"cut") {  // server drops the TCP connection
            auto &c = cli(st);
            c.sigMark = g_seq;
            if (auto *cn = c.current(); cn && !cn->closed) {
                cn->closed = true;
                J({ { "ev", "srv_cut" }, { "c", c.index }, { "conn", cn->connIndex }, { "graceful", st["graceful"].toBool() } });
                if (st["graceful"].toBool()) cn->sock->disconnectFromHost();
                else cn->sock->abort();
            }
            return true;
        }
        if (op == u"fence") {  // everything the client emitted for what was sent before precedes the answer to this
            auto &c = cli(st);
            auto *cn = c.current();
            if (!cn || cn->closed) return true;
            const QString fid = u"fence-%1"_s.arg(idx);
            if (st["sm"].toBool()) {
                J({ { "ev", "srv_tx" }, { "c", c.index }, { "conn", cn->connIndex }, { "xml", "<r xmlns='urn:xmpp:sm:3'/>" }, { "fence", true }, { "sm_outbound", cn->smOutbound }, { "sm_session", cn->smSessionId } });
                cn->send("<r xmlns='urn:xmpp:sm:3'/>");
            } else {
                const QByteArray x = "<iq type='get' id='" + fid.toUtf8() + "' from='example.org'><ping xmlns='urn:xmpp:ping'/></iq>";
                if (cn->smOn) cn->smOutbound++;
                J({ { "ev", "srv_tx" }, { "c", c.index }, { "conn", cn->connIndex }, { "xml", QString::fromUtf8(x) }, { "fence", true }, { "sm_outbound", cn->smOutbound }, { "sm_session", cn->smSessionId } });
                cn->send(x);
            }
            bool got = false;
            bool ok = spinUntil([&] {
                if (st["sm"].toBool()) {
                    // every <r/> the script ever sent on this connection has been answered (an earlier, not yet consumed <a/> does not count for this one)
                    if (cn->smAnswersSeen >= cn->smRequestsSent) {
                        got = true;
                        return true;
                    }
                    return cn->closed;
                }
                for (int i = 0; i < cn->queue.size(); i++) {
                    const auto &o = cn->queue[i];
                    if ((st["sm"].toBool() && o["tag"].toString() == u"a") || (!st["sm"].toBool() && o["id"].toString() == fid)) {
                        got = true;
                        cn->queue.erase(cn->queue.begin(), cn->queue.begin() + i + 1);
                        return true;
                    }
                }
                return cn->closed;
            }, timeout);
            if (!got) J({ { "ev", "await_failed" }, { "step", idx }, { "tag", "fence" }, { "closed", cn->closed }, { "timeout", !ok } });
            else J({ { "ev", "fence_done" }, { "step", idx } });
            return got;
        }
        if (op == u"wait_signal") {
            auto &c = cli(st);
            const QString name = st["name"].toString();
            const int from = st.contains("fromSeq") ? st["fromSeq"].toInt(0) : c.sigMark;
            bool ok = spinUntil([&] {
                for (auto it = g_signals.rbegin(); it != g_signals.rend(); ++it) {
                    if (it->t < from) break;
                    if (it->c == c.index && it->name == name) return true;
                }
                return false;
            }, timeout);
            if (!ok) J({ { "ev", "await_failed" }, { "step", idx }, { "tag", u"signal:"_s + name }, { "timeout", true } });
            return ok;
        }
        if (op == u"sendSensitive") {
            // the application hands a complete message to the client's encrypted send path
            QDomDocument d;
            if (d.setContent(st["xml"].toString().toUtf8(), true)) {
                QXmppMessage m;
                m.parse(d.documentElement());
                cli(st).client->sendSensitive(std::move(m));
            }
            return true;
        }
        if (op == u"normalize") {
            // what the library itself makes of a message element parsed on its own
            QDomDocument d;
            QJsonObject o { { "ev", "normalized" }, { "tag", st["tag"].toString() } };
            if (d.setContent(st["xml"].toString().toUtf8(), true)) {
                QXmppMessage m;
                m.parse(d.documentElement());
                o["xml"] = msgXml(m);
            }
            J(o);
            return true;
        }
        if (op == u"ackrel") {
            auto &c = cli(st);
            auto *cn = c.current();
            if (!cn || cn->closed || !cn->smOn) return true;
            const QString rel = st["rel"].toString();
            int h = cn->smInbound;
            if (rel == u"minus1") h = qMax(0, cn->smInbound - 1);
            else if (rel == u"stale") h = qMax(0, cn->smLastAck - 1);
            else if (rel == u"zero") h = 0;
            else if (rel == u"beyond") h = cn->smInbound + 5;
            cn->smLastAck = qMax(cn->smLastAck, h);
            const QByteArray a = "<a xmlns='urn:xmpp:sm:3' h='" + QByteArray::number(h) + "'/>";
            J({ { "ev", "srv_tx" }, { "c", c.index }, { "conn", cn->connIndex }, { "xml", QString::fromUtf8(a) }, { "rel", rel }, { "sm_outbound", cn->smOutbound }, { "sm_session", cn->smSessionId } });
            cn->send(a);
            return true;
        }
        if (op == u"mark") {
            J({ { "ev", "mark" }, { "name", st["name"].toString() } });
            return true;
        }
        if (op == u"sendIq") {
            auto &c = cli(st);
            QXmppIq iq(st["type"].toString() == u"set" ? QXmppIq::Set : QXmppIq::Get);
            if (st.contains("to")) iq.setTo(st["to"].toString());
            if (st.contains("id")) iq.setId(st["id"].toString());
            QDomDocument d;
            if (d.setContent(st["payload"].toString(u"<ping xmlns='urn:xmpp:ping'/>"_s), true)) iq.setExtensions({ QXmppElement(d.documentElement()) });
            const QString req = st["req"].toString();
            J({ { "ev", "iq_call" }, { "c", c.index }, { "req", req }, { "id", iq.id() }, { "to", iq.to() } });
            auto counter = std::make_shared<int>(0);
            const QString reenter = st["reenter"].toString();
            Cli *cp = &c;
            c.client->sendIq(std::move(iq)).then(&c.ctx, [=, this](QXmppClient::IqResult &&r) {
                ++*counter;
                QJsonObject o { { "ev", "iq_done" }, { "c", cp->index }, { "req", req }, { "count", *counter } };
                if (auto *el = std::get_if<QDomElement>(&r)) {
                    o["kind"] = el->attribute(u"type"_s);
                    o["from"] = el->attribute(u"from"_s);
                    o["marker"] = el->firstChildElement().attribute(u"marker"_s);
                } else {
                    o["kind"] = "error";
                    o["text"] = errText(std::get<QXmppError>(r));
                }
                J(o);
                if (!cp->client || cp->destroying) return;  // completions delivered by the client's own destructor must not call back into it
                if (reenter == u"disconnect") cp->client->disconnectFromServer();
                else if (reenter == u"sendIq") {
                    QXmppIq iq2(QXmppIq::Get);
                    iq2.setTo(u"example.org"_s);
                    J({ { "ev", "iq_call" }, { "c", cp->index }, { "req", req + u"-nested"_s }, { "id", iq2.id() }, { "to", iq2.to() } });
                    auto counter2 = std::make_shared<int>(0);
                    cp->client->sendIq(std::move(iq2)).then(&cp->ctx, [=](QXmppClient::IqResult &&r2) {
                        ++*counter2;
                        QJsonObject o2 { { "ev", "iq_done" }, { "c", cp->index }, { "req", req + u"-nested"_s }, { "count", *counter2 } };
                        o2["kind"] = std::holds_alternative<QDomElement>(r2) ? std::get<QDomElement>(r2).attribute(u"type"_s) : u"error"_s;
                        J(o2);
                    });
                }
            });
            return true;
        }
        if (op == u"scram") {
            // plays the server side of a SCRAM exchange (SASL or SASL2) with its own implementation; `variant` makes it misbehave
            auto &c = cli(st);
            const bool sasl2 = st["sasl2"].toBool();
            const QString variant = st["variant"].toString(u"honest"_s);
            const QByteArray serverPassword = st["password"].toString().toUtf8();
            const int iters = st["iters"].toInt(64);
            const QByteArray salt = QByteArray::fromHex(st["salt"].toString(u"00112233445566778899aabbccddeeff"_s).toLatin1());
            const QString nsS = sasl2 ? u"urn:xmpp:sasl:2"_s : u"urn:ietf:params:xml:ns:xmpp-sasl"_s;
            QJsonObject first;
            auto take = [&](const QString &tag, QJsonObject &found) {
                return spinUntil([&] {
                    auto *cn = c.current();
                    if (!cn) return false;
                    while (!cn->queue.isEmpty()) {
                        auto o = cn->queue.takeFirst();
                        if (o["tag"].toString() == tag) {
                            found = o;
                            return true;
                        }
                    }
                    return cn->closed;
                }, timeout) && !found.isEmpty();
            };
            QJsonObject rec { { "ev", "scram" }, { "c", c.index }, { "variant", variant } };
            auto finish = [&](bool ok) {
                J(rec);
                return ok;
            };
            if (!take(sasl2 ? u"authenticate"_s : u"auth"_s, first)) {
                rec["stage"] = "no-auth";
                return finish(false);
            }
            auto *cn = c.current();
            QDomDocument d;
            d.setContent(first["xml"].toString().toUtf8(), true);
            const QString mech = d.documentElement().attribute(u"mechanism"_s);
            rec["mechanism"] = mech;
            const auto algo = scramAlgo(mech);
            const QByteArray clientFirst = QByteArray::fromBase64((sasl2 ? d.documentElement().firstChildElement(u"initial-response"_s).text() : d.documentElement().text()).toLatin1());
            rec["client_first"] = QString::fromUtf8(clientFirst);
            const int bareAt = clientFirst.indexOf(",", clientFirst.indexOf(",") + 1) + 1;   // behind the gs2 header "n,,"
            const QByteArray clientFirstBare = clientFirst.mid(bareAt);
            const QByteArray gs2 = clientFirst.left(bareAt);
            const auto cf = scramFields(clientFirstBare);
            const QByteArray cnonce = cf.value("r");
            // followUp: sent in the same write as <success/> (what a hostile server would do to get ahead of the client's reaction)
            const QByteArray followUp = st["followUp"].toString().toUtf8();
            auto sendEl = [&](QByteArray x, bool restart = false) {
                if (x.startsWith("<success")) x += followUp;
                J({ { "ev", "srv_tx" }, { "c", c.index }, { "conn", cn->connIndex }, { "xml", QString::fromUtf8(x) }, { "scram", true } });
                cn->send(x);
                if (restart) cn->resetStream();
            };
            const QByteArray okTag = sasl2 ? "<success xmlns='urn:xmpp:sasl:2'>" : "<success xmlns='urn:ietf:params:xml:ns:xmpp-sasl'>";
            if (variant == u"early-success") {
                // success instead of a challenge: the server has proved nothing
                sendEl(sasl2 ? okTag + "<authorization-identifier>alice@example.org/res1</authorization-identifier><bound xmlns='urn:xmpp:bind:0'/></success>" : QByteArray("<success xmlns='urn:ietf:params:xml:ns:xmpp-sasl'/>"), !sasl2);
                rec["stage"] = "early-success-sent";
                return finish(true);
            }
            QByteArray snonce = "srvNonce" + QByteArray::number(g_seq);
            QByteArray fullNonce = cnonce + snonce;
            if (variant == u"bad-nonce") fullNonce = (fullNonce.startsWith('X') ? "Y" : "X") + fullNonce.mid(1);
            if (variant == u"short-nonce") fullNonce = cnonce;
            QByteArray serverFirst = "r=" + fullNonce + ",s=" + salt.toBase64() + ",i=" + QByteArray::number(iters);
            if (variant == u"zero-iterations") serverFirst = "r=" + fullNonce + ",s=" + salt.toBase64() + ",i=0";
            if (variant == u"no-salt") serverFirst = "r=" + fullNonce + ",i=" + QByteArray::number(iters);
            if (variant == u"garbage-iterations") serverFirst = "r=" + fullNonce + ",s=" + salt.toBase64() + ",i=many";
            if (variant == u"extension-m") serverFirst = "m=ext," + serverFirst;
            sendEl((sasl2 ? "<challenge xmlns='urn:xmpp:sasl:2'>" : "<challenge xmlns='urn:ietf:params:xml:ns:xmpp-sasl'>") + serverFirst.toBase64() + "</challenge>");
            QJsonObject second;
            if (!take(u"response"_s, second)) {
                rec["stage"] = "no-response";   // the client refused the challenge (aborted / closed)
                return finish(true);
            }
            QDomDocument d2;
            d2.setContent(second["xml"].toString().toUtf8(), true);
            const QByteArray clientFinal = QByteArray::fromBase64(d2.documentElement().text().toLatin1());
            rec["client_final"] = QString::fromUtf8(clientFinal);
            const int proofAt = clientFinal.lastIndexOf(",p=");
            const QByteArray clientFinalNoProof = clientFinal.left(proofAt);
            const QByteArray proof = QByteArray::fromBase64(clientFinal.mid(proofAt + 3));
            const auto fin = scramFields(clientFinalNoProof);
            const QByteArray authMessage = clientFirstBare + "," + serverFirst + "," + clientFinalNoProof;
            const QByteArray salted = scramHi(algo, serverPassword, salt, qMax(1, iters));
            const QByteArray clientKey = scramHmac(algo, salted, "Client Key");
            const QByteArray storedKey = QCryptographicHash::hash(clientKey, algo);
            const QByteArray clientSig = scramHmac(algo, storedKey, authMessage);
            QByteArray expectProof = clientKey;
            for (int k = 0; k < expectProof.size(); k++) expectProof[k] = char(expectProof[k] ^ clientSig[k]);
            const bool proofOk = proof == expectProof && fin.value("r") == fullNonce && fin.value("c") == gs2.toBase64();
            rec["proof_ok"] = proofOk;
            rec["channel_binding_ok"] = fin.value("c") == gs2.toBase64();
            rec["nonce_echoed"] = fin.value("r") == fullNonce;
            const QByteArray serverKey = scramHmac(algo, salted, "Server Key");
            QByteArray serverSig = scramHmac(algo, serverKey, authMessage);
            if (!proofOk && variant == u"honest") {
                sendEl(sasl2 ? QByteArray("<failure xmlns='urn:xmpp:sasl:2'><not-authorized xmlns='urn:ietf:params:xml:ns:xmpp-sasl'/></failure>") : QByteArray("<failure xmlns='urn:ietf:params:xml:ns:xmpp-sasl'><not-authorized/></failure>"));
                rec["stage"] = "failure-sent";
                return finish(true);
            }
            if (variant == u"wrong-signature") serverSig[0] = char(serverSig[0] ^ 1);
            QByteArray data = "v=" + serverSig.toBase64();
            if (variant == u"signature-of-other-password") data = "v=" + scramHmac(algo, scramHmac(algo, scramHi(algo, "some-other-password", salt, qMax(1, iters)), "Server Key"), authMessage).toBase64();
            if (variant == u"empty-signature") data = "v=";
            if (variant == u"error-instead") data = "e=other-error";
            if (variant == u"success-without-data") data.clear();
            if (sasl2) {
                sendEl(okTag + (data.isEmpty() ? QByteArray() : "<additional-data>" + data.toBase64() + "</additional-data>") + "<authorization-identifier>alice@example.org/res1</authorization-identifier><bound xmlns='urn:xmpp:bind:0'/></success>", false);
            } else {
                sendEl(okTag + data.toBase64() + "</success>", true);
            }
            rec["stage"] = "success-sent";
            return finish(true);
        }
        if (op == u"discoSet") {  // the application changes what it advertises while connected
            auto &c = cli(st);
            if (auto *dm = c.client->findExtension<QXmppDiscoveryManager>()) {
                if (st.contains("clientName")) dm->setClientName(st["clientName"].toString());
                if (st.contains("clientType")) dm->setClientType(st["clientType"].toString());
                if (st.contains("clientCategory")) dm->setClientCategory(st["clientCategory"].toString());
                if (st.contains("infoFormValue")) {
                    QXmppDataForm form;
                    form.setType(QXmppDataForm::Result);
                    QXmppDataForm::Field ft, f2;
                    ft.setKey(u"FORM_TYPE"_s);
                    ft.setType(QXmppDataForm::Field::HiddenField);
                    ft.setValue(u"urn:xmpp:dataforms:softwareinfo"_s);
                    f2.setKey(u"software_version"_s);
                    f2.setValue(st["infoFormValue"].toString());
                    form.setFields({ ft, f2 });
                    dm->setClientInfoForm(form);
                }
            }
            return true;
        }
        if (op == u"clientPresence") {  // QXmppClient::setClientPresence(): stamps the capabilities and sends
            auto &c = cli(st);
            QXmppPresence p(QXmppPresence::Available);
            p.setStatusText(st["status"].toString(u"again"_s));
            c.client->setClientPresence(p);
            return true;
        }
        if (op == u"sleep") {  // lets timers of the client fire (keep-alive, reconnection back-off)
            QElapsedTimer t;
            t.start();
            const int ms = st["ms"].toInt(100);
            while (t.elapsed() < ms) QCoreApplication::processEvents(QEventLoop::AllEvents | QEventLoop::WaitForMoreEvents, 5);
            return true;
        }
        if (op == u"autoreply") {
            g_autoReplies.push_back({ st["childns"].toString(), st["xml"].toString() });
            return true;
        }
        if (op == u"rpcCall") {  // blocking XML-RPC call (nested event loop inside the library): started from a timer, answered by an autoreply rule
            auto &c = cli(st);
            Cli *cp = &c;
            const QString to = st["to"].toString(u"responder@example.org/rpc"_s);
            QTimer::singleShot(0, &c.ctx, [=, this]() {
                auto *rm = cp->client->findExtension<QXmppRpcManager>();
                if (!rm) return;
                J({ { "ev", "rpc_call" }, { "c", cp->index } });
                auto r = rm->callRemoteMethod(to, u"Iface.method"_s, QVariant(1), QVariant(u"two"_s));
                J({ { "ev", "rpc_done" }, { "c", cp->index }, { "hasError", r.hasError }, { "result", r.result.toString() }, { "message", r.errorMessage } });
            });
            return spinUntil([&] {
                for (auto it = g_journal->rbegin(); it != g_journal->rend(); ++it)
                    if ((*it)["ev"].toString() == u"rpc_done") return true;
                return false;
            }, timeout);
        }
        if (op == u"mgr") {  // a request through a manager's task-returning API; the completion is journaled with its count
            auto &c = cli(st);
            Cli *cp = &c;
            const QString rid = st["rid"].toString();
            const QString kind = st["kind"].toString();
            const QString to = st["to"].toString(u"pubsub.example.org"_s);
            const QString node = st["node"].toString(u"urn:example:node"_s);
            J({ { "ev", "mgr_call" }, { "c", c.index }, { "rid", rid }, { "kind", kind }, { "to", to } });
            auto attach = [=, this](auto task) {
                auto counter = std::make_shared<int>(0);
                task.then(&cp->ctx, [=, this](auto &&r) {
                    ++*counter;
                    QJsonObject o { { "ev", "mgr_done" }, { "c", cp->index }, { "rid", rid }, { "kind", kind }, { "count", *counter } };
                    using R = std::decay_t<decltype(r)>;
                    if constexpr (requires { std::holds_alternative<QXmppError>(r); }) {
                        o["outcome"] = std::holds_alternative<QXmppError>(r) ? u"error"_s : u"value"_s;
                        if (auto *e = std::get_if<QXmppError>(&r)) o["text"] = errText(*e);
                    } else {
                        o["outcome"] = u"value"_s;
                    }
                    (void)sizeof(R);
                    J(o);
                });
            };
            QXmppClient *cl = &*c.client;
            bool known = true;
            if (kind == u"discoInfo") attach(cl->findExtension<QXmppDiscoveryManager>()->requestDiscoInfo(to, st["qnode"].toString()));
            else if (kind == u"discoItems") attach(cl->findExtension<QXmppDiscoveryManager>()->requestDiscoItems(to, st["qnode"].toString()));
            else if (kind == u"fetchVCard") attach(cl->findExtension<QXmppVCardManager>()->fetchVCard(to));
            else if (kind == u"setVCard") {
                QXmppVCardIq v;
                v.setFullName(u"Alice"_s);
                attach(cl->findExtension<QXmppVCardManager>()->setVCard(v));
            } else if (kind == u"entityTime") attach(cl->findExtension<QXmppEntityTimeManager>()->requestEntityTime(to));
            else if (kind == u"mamRetrieve") attach(cl->findExtension<QXmppMamManager>()->retrieveMessages(st.contains("to") ? to : QString()));
            else if (kind == u"blocklist") attach(cl->findExtension<QXmppBlockingManager>()->fetchBlocklist());
            else if (kind == u"block") attach(cl->findExtension<QXmppBlockingManager>()->block(u"spam@evil.example"_s));
            else if (kind == u"unblock") attach(cl->findExtension<QXmppBlockingManager>()->unblock(u"spam@evil.example"_s));
            else if (kind == u"extServices") attach(cl->findExtension<QXmppExternalServiceDiscoveryManager>()->requestServices(to));
            else if (kind == u"rosterAdd") attach(cl->findExtension<QXmppRosterManager>()->addRosterItem(u"carol@example.org"_s, u"Carol"_s));
            else if (kind == u"rosterRemove") attach(cl->findExtension<QXmppRosterManager>()->removeRosterItem(u"carol@example.org"_s));
            else if (kind == u"rosterRename") attach(cl->findExtension<QXmppRosterManager>()->renameRosterItem(u"carol@example.org"_s, u"C."_s));
            else if (kind == u"psNodes") attach(cl->findExtension<QXmppPubSubManager>()->requestNodes(to));
            else if (kind == u"psCreate") attach(cl->findExtension<QXmppPubSubManager>()->createNode(to, node));
            else if (kind == u"psCreateInstant") attach(cl->findExtension<QXmppPubSubManager>()->createInstantNode(to));
            else if (kind == u"psDelete") attach(cl->findExtension<QXmppPubSubManager>()->deleteNode(to, node));
            else if (kind == u"psItemIds") attach(cl->findExtension<QXmppPubSubManager>()->requestItemIds(to, node));
            else if (kind == u"psItems") attach(cl->findExtension<QXmppPubSubManager>()->requestItems<QXmppPubSubBaseItem>(to, node));
            else if (kind == u"psItem") attach(cl->findExtension<QXmppPubSubManager>()->requestItem<QXmppPubSubBaseItem>(to, node, u"item-1"_s));
            else if (kind == u"psPublish") attach(cl->findExtension<QXmppPubSubManager>()->publishItem(to, node, QXmppPubSubBaseItem(u"item-1"_s)));
            else if (kind == u"psRetract") attach(cl->findExtension<QXmppPubSubManager>()->retractItem(to, node, u"item-1"_s));
            else if (kind == u"psPurge") attach(cl->findExtension<QXmppPubSubManager>()->purgeItems(to, node));
            else if (kind == u"psSubscriptions") attach(cl->findExtension<QXmppPubSubManager>()->requestSubscriptions(to));
            else if (kind == u"psAffiliations") attach(cl->findExtension<QXmppPubSubManager>()->requestAffiliations(to));
            else if (kind == u"psNodeAffiliations") attach(cl->findExtension<QXmppPubSubManager>()->requestNodeAffiliations(to, node));
            else if (kind == u"psOptions") attach(cl->findExtension<QXmppPubSubManager>()->requestSubscribeOptions(to, node));
            else if (kind == u"psNodeConfig") attach(cl->findExtension<QXmppPubSubManager>()->requestNodeConfiguration(to, node));
            else if (kind == u"psSubscribe") attach(cl->findExtension<QXmppPubSubManager>()->subscribeToNode(to, node, u"alice@example.org"_s));
            else if (kind == u"psUnsubscribe") attach(cl->findExtension<QXmppPubSubManager>()->unsubscribeFromNode(to, node, u"alice@example.org"_s));
            else if (kind == u"mixChannelJids") attach(cl->findExtension<QXmppMixManager>()->requestChannelJids(to));
            else if (kind == u"mixChannelNodes") attach(cl->findExtension<QXmppMixManager>()->requestChannelNodes(to));
            else if (kind == u"mixConfig") attach(cl->findExtension<QXmppMixManager>()->requestChannelConfiguration(to));
            else if (kind == u"mixInfo") attach(cl->findExtension<QXmppMixManager>()->requestChannelInformation(to));
            else if (kind == u"mixJoin") attach(cl->findExtension<QXmppMixManager>()->joinChannel(to, u"nick"_s));
            else if (kind == u"mixLeave") attach(cl->findExtension<QXmppMixManager>()->leaveChannel(to));
            else if (kind == u"mixNick") attach(cl->findExtension<QXmppMixManager>()->updateNickname(to, u"nick2"_s));
            else if (kind == u"mixParticipants") attach(cl->findExtension<QXmppMixManager>()->requestParticipants(to));
            else if (kind == u"mixCreate") attach(cl->findExtension<QXmppMixManager>()->createChannel(to, u"chan"_s));
            else if (kind == u"mixDelete") attach(cl->findExtension<QXmppMixManager>()->deleteChannel(to));
            else if (kind == u"mixAllowed") attach(cl->findExtension<QXmppMixManager>()->requestAllowedJids(to));
            else if (kind == u"mixBan") attach(cl->findExtension<QXmppMixManager>()->banJid(to, u"spam@evil.example"_s));
            else if (kind == u"tuneRequest") attach(cl->findExtension<QXmppUserTuneManager>()->request(to));
            else if (kind == u"locationRequest") attach(cl->findExtension<QXmppUserLocationManager>()->request(to));
            else if (kind == u"uploadSlot") attach(cl->findExtension<QXmppUploadRequestManager>()->requestSlot(u"file.bin"_s, 1234, QMimeDatabase().mimeTypeForName(u"application/octet-stream"_s), to));
            else known = false;
            if (!known) J({ { "ev", "bad_step" }, { "step", idx }, { "op", op }, { "kind", kind } });
            return known;
        }
        if (op == u"sendMessage" || op == u"sendPresence") {
            auto &c = cli(st);
            const QString marker = st["marker"].toString();
            J({ { "ev", "send_call" }, { "c", c.index }, { "marker", marker } });
            auto counter = std::make_shared<int>(0);
            Cli *cp = &c;
            auto cont = [=](QXmpp::SendResult &&r) {
                ++*counter;
                QJsonObject o { { "ev", "send_done" }, { "c", cp->index }, { "marker", marker }, { "count", *counter } };
                if (auto *s = std::get_if<QXmpp::SendSuccess>(&r)) {
                    o["kind"] = s->acknowledged ? "acknowledged" : "sent";
                } else {
                    o["kind"] = "error";
                    o["text"] = errText(std::get<QXmppError>(r));
                }
                J(o);
            };
            if (op == u"sendMessage") {
                QXmppMessage m;
                m.setTo(st["to"].toString(u"bob@example.org"_s));
                m.setId(marker);
                m.setBody(u"body-"_s + marker);
                c.client->send(std::move(m)).then(&c.ctx, cont);
            } else {
                QXmppPresence p;
                p.setId(marker);
                p.setStatusText(u"status-"_s + marker);
                c.client->send(std::move(p)).then(&c.ctx, cont);
            }
            return true;
        }
        if (op == u"query") {
            auto &c = cli(st);
            QJsonObject o { { "ev", "query" }, { "c", c.index }, { "tag", st["tag"].toString() } };
            if (c.client) {
                o["state"] = int(c.client->state());
                o["isConnected"] = c.client->isConnected();
                o["isAuthenticated"] = c.client->isAuthenticated();
                o["sm"] = int(c.client->streamManagementState());
                if (auto *rm = c.client->findExtension<QXmppRosterManager>()) {
                    QJsonObject roster;
                    const auto jids = rm->getRosterBareJids();
                    for (const auto &j : jids) {
                        auto e = rm->getRosterEntry(j);
                        QJsonObject eo { { "name", e.name() }, { "sub", int(e.subscriptionType()) }, { "ask", e.subscriptionStatus() }, { "approved", e.isApproved() } };
                        QJsonArray groups;
                        auto gl = e.groups().values();
                        std::sort(gl.begin(), gl.end());
                        for (const auto &g : gl) groups.append(g);
                        eo["groups"] = groups;
                        roster[j] = eo;
                    }
                    o["roster"] = roster;
                    o["rosterReceived"] = rm->isRosterReceived();
                    QJsonObject pres;
                    for (auto v : st["presenceOf"].toArray()) {
                        auto rl = rm->getResources(v.toString());
                        std::sort(rl.begin(), rl.end());
                        QJsonArray ra;
                        for (const auto &r : rl) ra.append(r);
                        pres[v.toString()] = ra;
                    }
                    o["presence"] = pres;
                }
            }
            J(o);
            return true;
        }
        if (op == u"sendFile") {
            auto &c = cli(st);
            auto *tm = c.client->findExtension<QXmppTransferManager>();
            auto *buf = new QBuffer(&c.ctx);
            buf->setData(QByteArray::fromHex(st["data"].toString().toLatin1()));
            buf->open(QIODevice::ReadOnly);
            QXmppTransferFileInfo info;
            info.setName(u"file.bin"_s);
            info.setSize(buf->size());
            if (st["withHash"].toBool(true)) info.setHash(QCryptographicHash::hash(buf->data(), QCryptographicHash::Md5));
            auto *job = tm->sendFile(st["to"].toString(), buf, info, st["sid"].toString());
            Cli *cp = &c;
            if (job) {
                cp->jobs[u"send:"_s + job->sid()] = job;
                J({ { "ev", "sendFile_call" }, { "c", c.index }, { "sid", job->sid() } });
                QObject::connect(job, &QXmppTransferJob::finished, &c.ctx, [=]() {
                    cp->signalCount++;
                    J({ { "ev", "cli_sig" }, { "c", cp->index }, { "name", "sendJobFinished" }, { "sid", job->sid() }, { "error", int(job->error()) }, { "state", int(job->state()) } });
                });
            }
            return true;
        }
        if (op == u"route") {
            // relay mode (C19): forward stanzas between client 0 and client 1, stamping from, applying a tamper rule
            // runs until both connections are idle for `quiet` ms or `timeout`
            relay(st, timeout);
            return true;
        }
        J({ { "ev", "bad_step" }, { "step", idx }, { "op", op } });
        return true;
    }

    void relay(const QJsonObject &st, int timeout)
    {
        g_quietRx = st["quietRx"].toBool();
        struct Unquiet {
            ~Unquiet() { g_quietRx = false; }
        } unquiet;
        const QJsonObject tamper = st["tamper"].toObject();
        const QString kind = tamper["kind"].toString();
        const int at = tamper["at"].toInt(-1);   // index of the IBB <data/> stanza the fault applies to
        int dataSeen = 0;
        QByteArray held;  // for swap
        bool heldSet = false;
        QElapsedTimer total, quietT;
        total.start();
        quietT.start();
        const int quiet = st["quiet"].toInt(60);
        QStringList jids { clis[0]->config.jid(), clis[1]->config.jid() };
        auto stamp = [&](const QJsonObject &o, int fromIdx) -> QByteArray {
            QDomDocument d;
            d.setContent(o["xml"].toString().toUtf8(), true);
            auto el = d.documentElement();
            el.setAttribute(u"from"_s, jids[fromIdx]);
            if (!el.hasAttribute(u"xmlns"_s)) el.setAttribute(u"xmlns"_s, u"jabber:client"_s);
            return d.toByteArray(-1);
        };
        while (total.elapsed() < timeout) {
            QCoreApplication::processEvents(QEventLoop::AllEvents, 1);
            bool moved = false;
            for (int k = 0; k < 2; k++) {
                auto *cn = clis[size_t(k)]->current();
                auto *other = clis[size_t(1 - k)]->current();
                if (!cn || !other) continue;
                while (!cn->queue.isEmpty()) {
                    auto o = cn->queue.takeFirst();
                    moved = true;
                    if (o["kind"].toString() != u"element") continue;
                    const QString tag = o["tag"].toString();
                    if (tag != u"iq" && tag != u"message" && tag != u"presence") continue;
                    if (o["to"].toString().isEmpty() || !o["to"].toString().startsWith(QXmppUtils::jidToBareJid(jids[1 - k]))) {
                        // addressed to the server: answer IQ requests with an empty result / error so that managers do not wait
                        if (tag == u"iq" && (o["type"].toString() == u"get" || o["type"].toString() == u"set")) {
                            cn->send("<iq type='error' id='" + o["id"].toString().toUtf8() + "'><error type='cancel'><service-unavailable xmlns='urn:ietf:params:xml:ns:xmpp-stanzas'/></error></iq>");
                        }
                        continue;
                    }
                    QByteArray out = stamp(o, k);
                    if (tamper["socks"].toBool() && o["child"].toString() == u"query" && o["childns"].toString() == u"http://jabber.org/protocol/bytestreams" && o["type"].toString() == u"set") {
                        // the receiver is told that the sender's SOCKS5 server lives at the tampering hop
                        QDomDocument d;
                        d.setContent(out, true);
                        auto q = d.documentElement().firstChildElement();
                        QString jid, host;
                        int port = 0;
                        QList<QDomElement> hosts;
                        for (auto h = q.firstChildElement(); !h.isNull(); h = h.nextSiblingElement())
                            if (h.tagName() == u"streamhost") hosts << h;
                        for (auto &h : hosts) {
                            if (host.isEmpty() && !h.attribute(u"host"_s).contains(u':')) {
                                host = h.attribute(u"host"_s);
                                port = h.attribute(u"port"_s).toInt();
                                jid = h.attribute(u"jid"_s);
                            }
                            q.removeChild(h);
                        }
                        if (!host.isEmpty()) {
                            socksTamper = std::make_unique<SocksTamper>();
                            socksTamper->upstreamHost = host;
                            socksTamper->upstreamPort = quint16(port);
                            socksTamper->fault = tamper;
                            auto h = d.createElement(u"streamhost"_s);
                            h.setAttribute(u"jid"_s, jid);
                            h.setAttribute(u"host"_s, u"127.0.0.1"_s);
                            h.setAttribute(u"port"_s, int(socksTamper->server.serverPort()));
                            q.appendChild(h);
                            J({ { "ev", "socks_hop" }, { "upstream", host + u':' + QString::number(port) }, { "port", int(socksTamper->server.serverPort()) } });
                            out = d.toByteArray(-1);
                        }
                    }
                    const bool isData = o["child"].toString() == u"data" && o["childns"].toString() == u"http://jabber.org/protocol/ibb" && o["type"].toString() == u"set";
                    const bool isClose = o["child"].toString() == u"close" && o["childns"].toString() == u"http://jabber.org/protocol/ibb" && o["type"].toString() == u"set";
                    const bool isOpen = o["child"].toString() == u"open" && o["childns"].toString() == u"http://jabber.org/protocol/ibb" && o["type"].toString() == u"set";
                    if (isOpen && kind == u"closebeforeopen") {
                        // the session is closed before it was ever opened: <open/> is lost (the sender is told so), <close/> arrives
                        J({ { "ev", "fault_injected" }, { "kind", kind }, { "at", 0 } });
                        cn->send("<iq type='error' id='" + o["id"].toString().toUtf8() + "' from='" + jids[1 - k].toUtf8() + "'><error type='cancel'><not-acceptable xmlns='urn:ietf:params:xml:ns:xmpp-stanzas'/></error></iq>");
                        other->send("<iq xmlns='jabber:client' type='set' id='close-before-open' from='" + jids[k].toUtf8() + "' to='" + jids[1 - k].toUtf8() + "'><close xmlns='http://jabber.org/protocol/ibb' sid='" + tamper["sid"].toString().toUtf8() + "'/></iq>");
                        continue;
                    }
                    if (isOpen && kind == u"bigblock") {
                        // the peer proposes a block size the receiver refuses (XEP-0047 resource-constraint); a sender that gives up closes the session
                        J({ { "ev", "fault_injected" }, { "kind", kind }, { "at", 0 } });
                        QDomDocument d;
                        d.setContent(out, true);
                        d.documentElement().firstChildElement().setAttribute(u"block-size"_s, 65535);
                        out = d.toByteArray(-1);
                    }
                    if (isData) {
                        const int n = dataSeen++;
                        if (n == at) {
                            J({ { "ev", "fault_injected" }, { "kind", kind }, { "at", at } });
                            if (kind == u"drop") {
                                // the sender still needs its acknowledgement to go on
                                cn->send("<iq type='result' id='" + o["id"].toString().toUtf8() + "' from='" + jids[1 - k].toUtf8() + "'/>");
                                continue;
                            } else if (kind == u"duplicate") {
                                other->send(out);
                                QByteArray dup = out;
                                dup.replace("id=\"" + o["id"].toString().toUtf8() + "\"", "id=\"dup-" + o["id"].toString().toUtf8() + "\"");
                                other->send(dup);
                                continue;
                            } else if (kind == u"flip") {
                                QDomDocument d;
                                d.setContent(out, true);
                                auto dataEl = d.documentElement().firstChildElement();
                                QByteArray payload = QByteArray::fromBase64(dataEl.text().toLatin1());
                                if (!payload.isEmpty()) {
                                    int bit = tamper["bit"].toInt(0) % (payload.size() * 8);
                                    payload[bit / 8] = char(payload[bit / 8] ^ (1 << (bit % 8)));
                                }
                                while (!dataEl.firstChild().isNull()) dataEl.removeChild(dataEl.firstChild());
                                dataEl.appendChild(d.createTextNode(QString::fromLatin1(payload.toBase64())));
                                out = d.toByteArray(-1);
                            } else if (kind == u"swap") {
                                held = out;
                                heldSet = true;
                                cn->send("<iq type='result' id='" + o["id"].toString().toUtf8() + "' from='" + jids[1 - k].toUtf8() + "'/>");
                                continue;
                            } else if (kind == u"inject") {
                                // an additional block from someone else (another resource of the sender's account, the bare account, a stranger) with the
                                // right session id and the expected sequence number, carrying other bytes; the sender's own block follows
                                QDomDocument d;
                                d.setContent(out, true);
                                auto dataEl = d.documentElement().firstChildElement();
                                QByteArray payload = QByteArray::fromBase64(dataEl.text().toLatin1());
                                for (auto &ch : payload) ch = char(ch ^ 0x5a);
                                while (!dataEl.firstChild().isNull()) dataEl.removeChild(dataEl.firstChild());
                                dataEl.appendChild(d.createTextNode(QString::fromLatin1(payload.toBase64())));
                                d.documentElement().setAttribute(u"from"_s, tamper["injectFrom"].toString());
                                d.documentElement().setAttribute(u"id"_s, u"inj-"_s + o["id"].toString());
                                other->send(d.toByteArray(-1));
                            } else if (kind == u"wrongsid") {
                                out.replace("sid=\"", "sid=\"x");
                            } else if (kind == u"wrongsender") {
                                out.replace("from=\"" + jids[k].toUtf8() + "\"", "from=\"mallory@example.org/evil\"");
                            } else if (kind == u"earlyclose") {
                                QByteArray cl = "<iq xmlns='jabber:client' type='set' id='early-close' from='" + jids[k].toUtf8() + "' to='" + jids[1 - k].toUtf8() + "'><close xmlns='http://jabber.org/protocol/ibb' sid='" + tamper["sid"].toString().toUtf8() + "'/></iq>";
                                other->send(cl);
                                continue;
                            } else if (kind == u"seq") {
                                QDomDocument d;
                                d.setContent(out, true);
                                d.documentElement().firstChildElement().setAttribute(u"seq"_s, tamper["seq"].toInt());
                                out = d.toByteArray(-1);
                            }
                        } else if (heldSet && kind == u"swap") {
                            other->send(out);
                            other->send(held);
                            heldSet = false;
                            continue;
                        }
                    }
                    if (isClose && heldSet) {
                        other->send(held);
                        heldSet = false;
                    }
                    other->send(out);
                }
            }
            if (moved) quietT.restart();
            else if (quietT.elapsed() > quiet) break;
        }
    }
};

static void onCaseWatchdog(int)
{
    static const char msg[] = "\nCASE-WATCHDOG: the case did not return (a handler never came back)\n";
    (void)!write(2, msg, sizeof(msg) - 1);
    _exit(79);
}

int main(int argc, char **argv)
{
    QCoreApplication app(argc, argv);
    signal(SIGALRM, onCaseWatchdog);
    {
        QFile c(QString::fromLocal8Bit(qgetenv("VERIF_TLS_DIR")) + u"/cert.pem"_s), k(QString::fromLocal8Bit(qgetenv("VERIF_TLS_DIR")) + u"/key.pem"_s);
        if (c.open(QIODevice::ReadOnly)) g_certPem = c.readAll();
        if (k.open(QIODevice::ReadOnly)) g_keyPem = k.readAll();
    }
    std::string line;
    while (std::getline(std::cin, line)) {
        if (line.empty()) continue;
        auto in = QJsonDocument::fromJson(QByteArray::fromStdString(line)).object();
        QJsonObject out;
        out["n"] = in["n"];
        printf("BEGIN %d\n", in["n"].toInt());
        fflush(stdout);
        // client and scripted server share this thread: a client that never returns from a handler stalls the whole case
        alarm(unsigned(in["watchdog"].toInt(180)));
        std::vector<QJsonObject> journal;
        g_journal = &journal;
        g_signals.clear();
        g_autoReplies.clear();
        g_seq = 0;
        int stalledAt = -1;
        {
            Case cs;
            cs.defaultTimeout = in["timeout"].toInt(3000);
            const auto steps = in["steps"].toArray();
            for (int i = 0; i < steps.size(); i++) {
                auto st = steps[i].toObject();
                J({ { "ev", "step" }, { "i", i }, { "op", st["op"].toString() } });
                if (!cs.step(st, i)) {
                    if (st["optional"].toBool()) continue;
                    stalledAt = i;
                    if (in["stopOnStall"].toBool(true)) break;
                }
            }
            cs.settle(5, 300);
        }
        alarm(0);
        QJsonArray ja;
        for (auto &o : journal) ja.append(o);
        out["journal"] = ja;
        out["stalled"] = stalledAt;
        g_journal = nullptr;
        emitJson(out);
    }
    return 0;
}
