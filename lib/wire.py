"""script builders and journal helpers for the wire engine (scripted fake XMPP server + real QXmppClient)"""
import base64, json, os
import vf

NS_SASL = "urn:ietf:params:xml:ns:xmpp-sasl"
NS_BIND = "urn:ietf:params:xml:ns:xmpp-bind"
NS_SM = "urn:xmpp:sm:3"
JID = "alice@example.org/res1"
BARE = "alice@example.org"
PASSWORD = "secret-pw-1234"


def hdr(sid="s1", version="1.0", with_id=True, frm="example.org"):
    a = " from='%s'" % frm
    if with_id:
        a += " id='%s'" % sid
    if version:
        a += " version='%s'" % version
    return "<?xml version='1.0'?><stream:stream xmlns='jabber:client' xmlns:stream='http://etherx.jabber.org/streams'%s>" % a


def features(*parts):
    return "<stream:features>%s</stream:features>" % "".join(parts)


def f_mechs(mechs=("PLAIN",)):
    return "<mechanisms xmlns='%s'>%s</mechanisms>" % (NS_SASL, "".join("<mechanism>%s</mechanism>" % m for m in mechs))


F_BIND = "<bind xmlns='%s'/>" % NS_BIND
F_SESSION = "<session xmlns='urn:ietf:params:xml:ns:xmpp-session'/>"
F_SM = "<sm xmlns='%s'/>" % NS_SM
F_STARTTLS = "<starttls xmlns='urn:ietf:params:xml:ns:xmpp-tls'/>"
F_STARTTLS_REQ = "<starttls xmlns='urn:ietf:params:xml:ns:xmpp-tls'><required/></starttls>"
F_LEGACY = "<auth xmlns='http://jabber.org/features/iq-auth'/>"


def f_sasl2(mechs=("PLAIN",), bind2=True, sm=False, fast=None, bind_features=()):
    inline = ""
    if bind2:
        inline += "<bind xmlns='urn:xmpp:bind:0'><inline>%s%s</inline></bind>" % ("<feature var='urn:xmpp:sm:3'/>" if sm else "", "".join("<feature var='%s'/>" % f for f in bind_features))
    if sm:
        inline += "<sm xmlns='%s'/>" % NS_SM
    if fast:
        inline += "<fast xmlns='urn:xmpp:fast:0'>%s</fast>" % "".join("<mechanism>%s</mechanism>" % m for m in fast)
    return "<authentication xmlns='urn:xmpp:sasl:2'>%s<inline>%s</inline></authentication>" % ("".join("<mechanism>%s</mechanism>" % m for m in mechs), inline)


def S(xml, **kw):
    return dict(op="send", xml=xml, **kw)


def A(tag, **kw):
    return dict(op="await", tag=tag, **kw)


def client(**kw):
    d = dict(op="client", jid=JID, password=PASSWORD, disabled=[])
    d.update(kw)
    return d


def login_sasl(sid="s1", sm=False, resumable=False, session=False, smid="smid-$CONN", roster=True, mechs=("PLAIN",), c=0, bind_jid=JID):
    """protocol-conforming STARTTLS-less SASL + bind (+ session) (+ stream management) login, server side"""
    st = [dict(op="connect", c=c), A("stream:stream", c=c), S(hdr(sid) + features(f_mechs(mechs)), c=c),
          A("auth", c=c), S("<success xmlns='%s'/>" % NS_SASL, restart=True, c=c),
          A("stream:stream", c=c), S(hdr(sid + "b") + features(F_BIND, F_SESSION if session else "", F_SM if sm else ""), c=c),
          A("iq", child="bind", c=c), S("<iq type='result' id='$ID'><bind xmlns='%s'><jid>%s</jid></bind></iq>" % (NS_BIND, bind_jid), c=c)]
    if session:
        st += [A("iq", child="session", c=c), S("<iq type='result' id='$ID'/>", c=c)]
    if sm:
        st += [A("enable", c=c), S("<enabled xmlns='%s' id='%s'%s/>" % (NS_SM, smid, " resume='true'" if resumable else ""), smOn=True, c=c)]
    if roster:
        st += [A("iq", child="query", c=c), S("<iq type='result' id='$ID'><query xmlns='jabber:iq:roster'/></iq>", c=c)]
    return st


def run_cases(binary, cases, timeout=1800):
    """cases: list of dict(steps=[...]) -> list of journals (or None)"""
    reqs = [dict(c, n=i) for i, c in enumerate(cases)]
    env = vf.env_for(extra={"VERIF_TLS_DIR": os.path.join(vf.VERIF, "corpus", "tls")})
    resp, crashes = vf.drive(binary, reqs, timeout=timeout, env=env)
    out = []
    for i in range(len(cases)):
        out.append(resp.get(i))
    return out, crashes


def srv_rx(journal, c=None, conn=None, elements_only=True):
    return [e for e in journal if e["ev"] == "srv_rx" and (c is None or e["c"] == c) and (conn is None or e["conn"] == conn) and (not elements_only or e["kind"] == "element")]


def signals(journal, name=None, c=None):
    return [e for e in journal if e["ev"] == "cli_sig" and (name is None or e["name"] == name) and (c is None or e["c"] == c)]


def relogin(sid="s2", resume="accept", sm=True, resumable=True, smid="smid-$CONN", roster=True, c=0, h=None, mechs=("PLAIN",), bind_jid=JID):
    """second and later connections of a client that had stream management: the client asks to resume.
    resume: 'accept' (resumed with the server's real count unless h is given), 'fail' (then bind + enable again), 'none' (server no longer offers sm)"""
    st = [dict(op="connect", c=c), A("stream:stream", c=c), S(hdr(sid) + features(f_mechs(mechs)), c=c),
          A("auth", c=c), S("<success xmlns='%s'/>" % NS_SASL, restart=True, c=c),
          A("stream:stream", c=c), S(hdr(sid + "b") + features(F_BIND, F_SM if resume != "none" else ""), c=c)]
    if resume == "accept":
        st += [A("resume", c=c), S("<resumed xmlns='%s' h='%s' previd='$PREVID'/>" % (NS_SM, "$SMIN_PREV" if h is None else h), smOn=True, smResume=True, c=c)]
        return st
    if resume == "fail":
        st += [A("resume", c=c), S("<failed xmlns='%s'><item-not-found xmlns='urn:ietf:params:xml:ns:xmpp-stanzas'/></failed>" % NS_SM, c=c)]
    st += [A("iq", child="bind", c=c), S("<iq type='result' id='$ID'><bind xmlns='%s'><jid>%s</jid></bind></iq>" % (NS_BIND, bind_jid), c=c)]
    if sm and resume != "none":
        st += [A("enable", c=c), S("<enabled xmlns='%s' id='%s'%s/>" % (NS_SM, smid, " resume='true'" if resumable else ""), smOn=True, c=c)]
    if roster:
        st += [A("iq", child="query", c=c), S("<iq type='result' id='$ID'><query xmlns='jabber:iq:roster'/></iq>", c=c)]
    return st


def timed_out(journal):
    """an await (optional or not) ended by its timeout: under heavy machine load that says nothing about the client"""
    return any(e["ev"] == "await_failed" and e.get("timeout") for e in journal)


def rerun_scaled(binary, case, scale=10):
    """plays one case again, alone, with every timeout multiplied: a wall-clock timeout is never a verdict, so a violation observed in a history
    in which an await timed out is only reported when it shows again with generous timeouts"""
    import copy
    c = copy.deepcopy(case)
    c["timeout"] = int(c.get("timeout", 3000) * scale)
    for st in c["steps"]:
        if "timeout" in st:
            st["timeout"] = int(st["timeout"] * scale)
    outs, crashes = run_cases(binary, [c])
    return outs[0] if outs else None


def judged(binary, case, out, judge_fn):
    """judge_fn(journal, viol, stats) -> error text or None; re-judges on a generous replay when the first verdict may stem from a timeout"""
    import collections
    v, st = [], collections.Counter()
    err = judge_fn(out["journal"], v, st)
    if v and timed_out(out["journal"]):
        out2 = rerun_scaled(binary, case)
        if out2:
            # (a replay that fails in the same way although every timeout was ten times longer is not an effect of machine load: it is judged as it is)
            v2, st2 = [], collections.Counter()
            err2 = judge_fn(out2["journal"], v2, st2)
            st2["rejudged_with_generous_timeouts"] += 1
            if not v2:
                st2["verdicts_withdrawn_after_generous_replay"] += 1
            return v2, st2, err2
        return [], st, "a history with a violation and a timed-out await could not be replayed with generous timeouts"
    return v, st, err
