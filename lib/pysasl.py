"""Independent SASL reference implementations (RFC 5802/7677 SCRAM, RFC 2831 DIGEST-MD5, RFC 4616 PLAIN, XEP-0484 HT-*).
Pure Python (hashlib/hmac); shares no code with the library."""
import base64, hashlib, hmac, stringprep, unicodedata

SCRAM_HASH = {"SCRAM-SHA-1": "sha1", "SCRAM-SHA-256": "sha256", "SCRAM-SHA-512": "sha512", "SCRAM-SHA3-512": "sha3_512"}
HT_HASH = {"SHA-256": "sha256", "SHA-384": "sha384", "SHA-512": "sha512", "SHA3-224": "sha3_224", "SHA3-256": "sha3_256",
           "SHA3-384": "sha3_384", "SHA3-512": "sha3_512"}


def b64(b):
    return base64.b64encode(b).decode()


def saslprep_identity(s):
    """True iff SASLprep (RFC 4013) maps s to itself and s is not prohibited"""
    if not s:
        return False
    for c in s:
        if stringprep.in_table_b1(c) or stringprep.in_table_c12(c):
            return False
        for t in (stringprep.in_table_c21, stringprep.in_table_c22, stringprep.in_table_c3, stringprep.in_table_c4, stringprep.in_table_c5,
                  stringprep.in_table_c6, stringprep.in_table_c7, stringprep.in_table_c8, stringprep.in_table_c9, stringprep.in_table_a1):
            if t(c):
                return False
        if stringprep.in_table_d1(c):   # keep bidi out of it
            return False
    return unicodedata.normalize("NFKC", s) == s


def saslname(u):
    return u.replace("=", "=3D").replace(",", "=2C")


def hi(alg, password, salt, i):
    return hashlib.pbkdf2_hmac(alg, password, salt, i)


class ScramServerView:
    """everything a conforming SCRAM server/client pair computes for one exchange"""

    def __init__(self, mech, user, password, cnonce, snonce, salt, iterations):
        self.alg = SCRAM_HASH[mech]
        self.client_first_bare = "n=%s,r=%s" % (saslname(user), cnonce)
        self.client_first = "n,," + self.client_first_bare
        self.nonce = cnonce + snonce
        self.server_first = "r=%s,s=%s,i=%d" % (self.nonce, b64(salt), iterations)
        self.password, self.salt, self.iterations = password, salt, iterations

    def finals(self, server_first=None, password=None):
        """(client-final, server-final) for the given server-first (default: the honest one)"""
        sf = server_first if server_first is not None else self.server_first
        pw = (password if password is not None else self.password).encode()
        attrs = dict(p.split("=", 1) for p in sf.split(",") if "=" in p)
        nonce = attrs.get("r", "")
        salt = base64.b64decode(attrs.get("s", ""))
        it = int(attrs.get("i", "0"))
        H = lambda d: hashlib.new(self.alg, d).digest()
        HM = lambda k, d: hmac.new(k, d, self.alg).digest()
        salted = hi(self.alg, pw, salt, it)
        ck = HM(salted, b"Client Key")
        sk = H(ck)
        cfwp = "c=biws,r=" + nonce
        am = (self.client_first_bare + "," + sf + "," + cfwp).encode()
        proof = bytes(a ^ b for a, b in zip(ck, HM(sk, am)))
        sig = HM(HM(salted, b"Server Key"), am)
        return cfwp + ",p=" + b64(proof), "v=" + b64(sig)


def plain(user, password):
    return b"\0" + user.encode() + b"\0" + password.encode()


def ht(hashname, user, secret):
    return user.encode() + b"\0" + hmac.new(secret.encode(), b"Initiator", HT_HASH[hashname]).digest()


# ---- DIGEST-MD5 (RFC 2831), server side

def md5_parse(msg):
    """RFC 2831 directive list -> dict (independent of the library's parser); raises ValueError on malformed input"""
    out = {}
    i, n = 0, len(msg)
    while i < n:
        while i < n and msg[i:i + 1] in (b",", b" ", b"\t"):
            i += 1
        if i >= n:
            break
        j = msg.index(b"=", i)
        key = msg[i:j].strip().decode()
        i = j + 1
        if msg[i:i + 1] == b'"':
            i += 1
            val = bytearray()
            while True:
                if i >= n:
                    raise ValueError("unterminated quoted-string")
                c = msg[i:i + 1]
                if c == b"\\":
                    val += msg[i + 1:i + 2]
                    i += 2
                elif c == b'"':
                    i += 1
                    break
                else:
                    val += c
                    i += 1
            out[key] = bytes(val)
        else:
            j = msg.find(b",", i)
            if j < 0:
                j = n
            out[key] = msg[i:j].strip()
            i = j
    return out


def md5_quote(b):
    return b'"' + b.replace(b"\\", b"\\\\").replace(b'"', b'\\"') + b'"'


def md5_response(user, realm, password, nonce, cnonce, nc, digest_uri, method=b"AUTHENTICATE", authzid=None):
    H = lambda d: hashlib.md5(d).digest()
    HEX = lambda d: hashlib.md5(d).hexdigest().encode()
    a1 = H(user + b":" + realm + b":" + password) + b":" + nonce + b":" + cnonce
    if authzid:
        a1 += b":" + authzid
    a2 = method + b":" + digest_uri
    return HEX(HEX(a1) + b":" + nonce + b":" + nc + b":" + cnonce + b":auth:" + HEX(a2))
