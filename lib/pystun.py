"""Independent STUN (RFC 5389 / 5766 / 5245) encoder + TLV walker used as oracle (C14) and forger (C15).
Shares no code with the library."""
import hashlib, hmac, ipaddress, struct, zlib

MAGIC = 0x2112A442
A = dict(MAPPED=0x0001, CHANGE_REQUEST=0x0003, SOURCE=0x0004, CHANGED=0x0005, USERNAME=0x0006, MI=0x0008, ERROR=0x0009,
         CHANNEL=0x000c, LIFETIME=0x000d, XOR_PEER=0x0012, DATA=0x0013, REALM=0x0014, NONCE=0x0015, XOR_RELAYED=0x0016,
         REQ_TRANSPORT=0x0019, XOR_MAPPED=0x0020, RESERVATION=0x0022, PRIORITY=0x0024, USE_CANDIDATE=0x0025,
         SOFTWARE=0x8022, FINGERPRINT=0x8028, ICE_CONTROLLED=0x8029, ICE_CONTROLLING=0x802a, OTHER=0x802c)


def tlv(t, v):
    pad = (-len(v)) % 4
    return struct.pack(">HH", t, len(v)) + v + b"\0" * pad


def addr_attr(t, host, port, xor_id=None):
    ip = ipaddress.ip_address(host)
    raw = ip.packed
    if xor_id is not None:
        port ^= MAGIC >> 16
        pad = struct.pack(">I", MAGIC) + xor_id
        raw = bytes(a ^ b for a, b in zip(raw, pad))
    return tlv(t, struct.pack(">BBH", 0, 1 if ip.version == 4 else 2, port) + raw)


def encode(mtype, tid, attrs, key=b"", fingerprint=True, cookie=MAGIC):
    """attrs: list of raw tlv byte strings (already padded)."""
    body = b"".join(attrs)

    def hdr(n):
        return struct.pack(">HHI", mtype, n, cookie) + tid
    if key:
        mac = hmac.new(key, hdr(len(body) + 24) + body, hashlib.sha1).digest()
        body += tlv(A["MI"], mac)
    if fingerprint:
        crc = (zlib.crc32(hdr(len(body) + 8) + body) & 0xffffffff) ^ 0x5354554e
        body += tlv(A["FINGERPRINT"], struct.pack(">I", crc))
    return hdr(len(body)) + body


def walk(buf):
    """list of (type, offset_of_attr_header, length, value) of a well-formed message, or None"""
    if len(buf) < 20:
        return None
    (mtype, n, cookie) = struct.unpack(">HHI", buf[:8])
    if n != len(buf) - 20:
        return None
    out = []
    pos = 20
    while pos < len(buf):
        if pos + 4 > len(buf):
            return None
        t, l = struct.unpack(">HH", buf[pos:pos + 4])
        if pos + 4 + l > len(buf):
            return None
        out.append((t, pos, l, buf[pos + 4:pos + 4 + l]))
        pos += 4 + l + ((-l) % 4)
    return out


def expected_mi(buf, pos_mi, key):
    h = buf[:2] + struct.pack(">H", pos_mi - 20 + 24) + buf[4:pos_mi]
    return hmac.new(key, h, hashlib.sha1).digest()


def expected_fp(buf, pos_fp):
    h = buf[:2] + struct.pack(">H", pos_fp - 20 + 8) + buf[4:pos_fp]
    return (zlib.crc32(h) & 0xffffffff) ^ 0x5354554e
