"""Shared machinery for the qxmpp runtime monitors.

build orchestration (sanitizer builds of $VERIF_REPO, harness compilation), worker pool with
crash attribution, evidence writer, known-finding matching and the exit-code discipline:
  0 = held on everything observed (KNOWN-FINDING lines allowed)
  1 = at least one violation that known_findings.json does not list
  2 = harness failure / inconclusive / non-vacuity floor not reached
"""
import fcntl, hashlib, json, os, random, re, shlex, subprocess, sys, time
from concurrent.futures import ThreadPoolExecutor

VERIF = os.path.dirname(os.path.dirname(os.path.abspath(__file__)))
REPO = os.path.abspath(os.environ.get("VERIF_REPO", "/repo"))
BUILD_ROOT = os.environ.get("VERIF_BUILD", os.path.join(VERIF, ".build"))
SEED = int(os.environ.get("VERIF_SEED", "1") or "1")
NPROC = int(os.environ.get("VERIF_JOBS", "0") or "0") or min(16, os.cpu_count() or 4)
GUARD = "QXMPP_VERIF_HOOKS"

FLAVOURS = {
    "asan": "-O1 -g -fno-omit-frame-pointer -fsanitize=address,undefined -fno-sanitize-recover=all -D%s" % GUARD,
    "plain": "-O1 -g -fno-omit-frame-pointer -D%s" % GUARD,
}
QT_CFLAGS = None


class HarnessFailure(Exception):
    pass


def log(*a):
    print(*a, file=sys.stderr, flush=True)


def _sh(cmd, **kw):
    return subprocess.run(cmd, shell=isinstance(cmd, str), stdout=subprocess.PIPE, stderr=subprocess.STDOUT, text=True, **kw)


def build_dir(flavour):
    tag = "" if REPO == "/repo" else "-" + hashlib.sha1(REPO.encode()).hexdigest()[:8]
    return os.path.join(BUILD_ROOT, flavour + tag)


def build_lib(flavour="asan"):
    """configure (once) + ninja the static library from REPO's working tree, under a lock"""
    bd = build_dir(flavour)
    os.makedirs(BUILD_ROOT, exist_ok=True)
    with open(os.path.join(BUILD_ROOT, ".lock-" + os.path.basename(bd)), "w") as lk:
        fcntl.flock(lk, fcntl.LOCK_EX)
        if not os.path.exists(os.path.join(bd, "build.ninja")):
            r = _sh(["cmake", "-G", "Ninja", "-S", REPO, "-B", bd, "-DCMAKE_BUILD_TYPE=RelWithDebInfo",
                     "-DBUILD_SHARED=OFF", "-DBUILD_TESTS=OFF", "-DBUILD_EXAMPLES=OFF", "-DBUILD_INTERNAL_TESTS=ON",
                     "-DCMAKE_CXX_FLAGS=" + FLAVOURS[flavour], "-DCMAKE_CXX_FLAGS_RELWITHDEBINFO="])
            if r.returncode:
                raise HarnessFailure("cmake failed:\n" + r.stdout[-3000:])
        r = _sh(["ninja", "-C", bd])
        if r.returncode:
            raise HarnessFailure("library build failed:\n" + r.stdout[-4000:])
    return bd


def _qt_flags():
    global QT_CFLAGS
    if QT_CFLAGS is None:
        c = subprocess.check_output("pkg-config --cflags Qt5Core Qt5Network Qt5Xml", shell=True, text=True).split()
        l = subprocess.check_output("pkg-config --libs Qt5Core Qt5Network Qt5Xml", shell=True, text=True).split()
        QT_CFLAGS = (c, l)
    return QT_CFLAGS


# harnesses whose field/case lists are split into parts that compile in parallel: name -> (part source, number of parts = -DPART=0..n-1)
PARTS = {"fields": ("fields_part.cpp", 8)}


def build_harness(name, flavour="asan", extra_src=()):
    """compile harness/<name>.cpp against the flavour's library; rebuild when any dependency is newer"""
    bd = build_lib(flavour)
    lib = os.path.join(bd, "src", "libQXmppQt5.a")
    hd = os.path.join(bd, "h")
    os.makedirs(hd, exist_ok=True)
    src = os.path.join(VERIF, "harness", name + ".cpp")
    out = os.path.join(hd, name)
    dep = out + ".d"
    with open(os.path.join(hd, ".lock-" + name), "w") as lk:
        fcntl.flock(lk, fcntl.LOCK_EX)
        need = not os.path.exists(out)
        if not need:
            t = os.path.getmtime(out)
            deps = [src, lib]
            if name in PARTS:
                deps += [os.path.join(VERIF, "harness", PARTS[name][0])] + [os.path.join(VERIF, "harness", "%s_part_%d.h" % (name, k)) for k in range(PARTS[name][1])]
            try:
                txt = open(dep).read().replace("\\\n", " ")
                deps += txt.split(":", 1)[1].split()
            except Exception:
                need = True
            for d in deps:
                try:
                    if os.path.getmtime(d) > t:
                        need = True
                        break
                except OSError:
                    need = True
                    break
        if need:
            c, l = _qt_flags()
            # (the harnesses are template-heavy glue: without optimisation and debug info they compile several times faster; sanitizer
            #  reports are attributed by the library's frames, which keep their own flags)
            san = [f for f in FLAVOURS[flavour].split() if f not in ("-O1", "-g")] + ["-O0"]
            inc = ["-I" + os.path.join(VERIF, "harness"),
                   "-I" + os.path.join(REPO, "src/base"), "-I" + os.path.join(REPO, "src/client"),
                   "-I" + os.path.join(REPO, "src/server"), "-I" + os.path.join(REPO, "src"),
                   "-I" + os.path.join(bd, "src")] + c
            t0 = time.time()
            objs = []
            if name in PARTS:
                psrc, n = PARTS[name]

                def one(k):
                    o = os.path.join(hd, "%s_part_%d.o" % (name, k))
                    rr = _sh(["g++", "-std=c++20", "-fPIC", "-c", "-DPART=%d" % k] + san + inc + [os.path.join(VERIF, "harness", psrc), "-o", o])
                    return o, rr
                for o, rr in pmap(one, range(n), n):
                    if rr.returncode:
                        raise HarnessFailure("harness %s (part) failed to compile:\n%s" % (name, rr.stdout[-6000:]))
                    objs.append(o)
            cmd = ["g++", "-std=c++20", "-fPIC", "-MD", "-MF", dep, "-MT", "x"] + san + inc + [src] + list(extra_src) + objs + [lib] + l + ["-o", out + ".tmp"]
            r = _sh(cmd)
            if r.returncode:
                raise HarnessFailure("harness %s failed to compile:\n%s" % (name, r.stdout[-6000:]))
            os.replace(out + ".tmp", out)
            log("[build] harness %s (%s) %.1fs" % (name, flavour, time.time() - t0))
    return out


SAN_ENV = {
    "ASAN_OPTIONS": "detect_leaks=0:abort_on_error=0:halt_on_error=1:allocator_may_return_null=1:detect_stack_use_after_return=0:exitcode=77",
    "UBSAN_OPTIONS": "print_stacktrace=1:halt_on_error=1:exitcode=78",
    "QT_LOGGING_RULES": "*.debug=false;qt.*=false",
    "LC_ALL": "C.UTF-8",
}


def env_for(leaks=False, extra=None):
    e = dict(os.environ)
    e.update(SAN_ENV)
    if leaks:
        e["ASAN_OPTIONS"] = e["ASAN_OPTIONS"].replace("detect_leaks=0", "detect_leaks=1")
    if extra:
        e.update(extra)
    return e


def san_signature(stderr):
    """(kind, innermost qxmpp frames without line numbers) of a sanitizer report in stderr, or None"""
    m = re.search(r"ERROR: (AddressSanitizer|LeakSanitizer): ([^\n]*)", stderr)
    kind = None
    if m:
        kind = m.group(1) + ":" + m.group(2).split(" on ")[0].split(" in ")[0].strip()
        kind = re.sub(r"0x[0-9a-f]+", "", kind).strip()
        kind = re.sub(r"\d+ byte\(s\)", "", kind).strip()
    else:
        m = re.search(r"runtime error: ([^\n]*)", stderr)
        if m:
            kind = "UBSan:" + re.sub(r"0x[0-9a-f]+|\d+", "N", m.group(1))[:80]
    if not kind:
        return None
    frames = []
    for fm in re.finditer(r"#\d+ 0x[0-9a-f]+ in (\S+)[^\n]*?(/src/(?:base|client|server)/[\w./]+)?:\d+", stderr):
        fn, path = fm.group(1), fm.group(2)
        if path:
            frames.append(os.path.basename(path) + ":" + fn.split("(")[0])
        if len(frames) >= 3:
            break
    return kind + " @ " + " < ".join(frames)


def run_proc(cmd, stdin=None, timeout=600, env=None, leaks=False):
    """run one harness process; returns dict(rc, out, err, timed_out)"""
    try:
        p = subprocess.run(cmd, input=stdin, stdout=subprocess.PIPE, stderr=subprocess.PIPE, text=True,
                           timeout=timeout, env=env or env_for(leaks), errors="replace")
        return {"rc": p.returncode, "out": p.stdout, "err": p.stderr, "timed_out": False}
    except subprocess.TimeoutExpired as e:
        o = e.stdout.decode("utf8", "replace") if isinstance(e.stdout, bytes) else (e.stdout or "")
        er = e.stderr.decode("utf8", "replace") if isinstance(e.stderr, bytes) else (e.stderr or "")
        return {"rc": -999, "out": o, "err": er, "timed_out": True}


def pmap(fn, items, jobs=None):
    with ThreadPoolExecutor(max_workers=jobs or NPROC) as ex:
        return list(ex.map(fn, items))


def jsonl(text):
    out = []
    for line in text.splitlines():
        line = line.strip()
        if line.startswith("{"):
            try:
                out.append(json.loads(line))
            except Exception:
                pass
    return out


# ------------------------------------------------------------------ findings / verdict

def load_known():
    try:
        k = json.load(open(os.path.join(VERIF, "known_findings.json")))
    except FileNotFoundError:
        return {"known": [], "fixed": []}
    return k


class Verdict:
    """collects violations (signature -> first witness) and inconclusive cases, prints the verdict lines"""

    def __init__(self, pid, tier):
        self.pid, self.tier = pid, tier
        self.viol = {}      # sig -> {"what":..., "witness":..., "count":n}
        self.inconclusive = []
        self.notes = []
        self.t0 = time.time()

    def violation(self, sig, what, witness=None):
        v = self.viol.setdefault(sig, {"what": what, "witness": witness, "count": 0})
        v["count"] += 1

    def inconc(self, what):
        self.inconclusive.append(what)

    def finish(self, coverage, level, assumptions, floors=None):
        """floors: dict name -> bool (non-vacuity requirements).  Writes evidence, prints verdict, exits."""
        known = load_known()
        ksig = {(k["property"], k["signature"]): k for k in known.get("known", [])}
        unknown = []
        hits = []
        for sig, v in sorted(self.viol.items()):
            k = ksig.get((self.pid, sig))
            if k:
                hits.append(sig)
                print("KNOWN-FINDING: property=%s %s [%s] (seen %d times)" % (self.pid, k.get("what", v["what"]), sig, v["count"]))
            else:
                unknown.append(sig)
        os.makedirs(os.path.join(VERIF, "replays"), exist_ok=True)
        for sig in unknown:
            v = self.viol[sig]
            path = os.path.join(VERIF, "replays", "%s-%s.json" % (self.pid, hashlib.sha1(sig.encode()).hexdigest()[:10]))
            json.dump({"property": self.pid, "signature": sig, "what": v["what"], "count": v["count"], "witness": v["witness"],
                       "seed": SEED, "tier": self.tier}, open(path, "w"), indent=1, default=str)
            print("VIOLATION property=%s replay=%s" % (self.pid, path))
            print("  signature: %s\n  what: %s" % (sig, v["what"]))
        coverage = dict(coverage)
        coverage["known_findings_hit"] = hits
        coverage["inconclusive"] = len(self.inconclusive)
        if self.inconclusive:
            coverage["inconclusive_samples"] = self.inconclusive[:5]
        coverage["violation_signatures"] = unknown
        floors = floors or {}
        coverage["non_vacuity_floors"] = floors
        ev = {"property_id": self.pid, "tier": self.tier, "seed": SEED, "level": level, "coverage": coverage,
              "assumptions": assumptions, "wall_s": round(time.time() - self.t0, 2), "violations": len(unknown)}
        # (runs against a deliberately broken tree - tools/seed_matrix.py, tools/try_patch.sh - keep their evidence out of the committed directory)
        evdir = os.environ.get("VERIF_EVIDENCE_DIR") or os.path.join(VERIF, "evidence")
        os.makedirs(evdir, exist_ok=True)
        json.dump(ev, open(os.path.join(evdir, self.pid + ".json"), "w"), indent=1, default=str)
        print("[%s %s seed=%d] evaluations=%s distinct=%s violations=%d known=%d inconclusive=%d wall=%.1fs" % (
            self.pid, self.tier, SEED, coverage.get("evaluations"), coverage.get("distinct_nontrivial"), len(unknown), len(hits),
            len(self.inconclusive), time.time() - self.t0))
        if unknown:
            sys.exit(1)
        bad = [k for k, ok in floors.items() if not ok]
        if bad:
            print("INCONCLUSIVE: non-vacuity floor(s) not reached: %s" % ", ".join(bad))
            sys.exit(2)
        if len(self.inconclusive) > max(3, 0.01 * (coverage.get("evaluations") or 0)):
            print("INCONCLUSIVE: %d cases without verdict, e.g. %s" % (len(self.inconclusive), self.inconclusive[:3]))
            sys.exit(2)
        sys.exit(0)


def rng(*parts):
    return random.Random(hashlib.sha256(("%d|" % SEED + "|".join(str(p) for p in parts)).encode()).digest())


def tier_arg(argv):
    tier = os.environ.get("VERIF_TIER") or (argv[1] if len(argv) > 1 else "quick")
    if tier not in ("quick", "thorough"):
        tier = "quick"
    return tier


def drive(binary, reqs, leaks=False, timeout=900, args=(), env=None):
    """feed JSON requests (each with a unique integer 'n') to a line-oriented harness; the harness prints 'BEGIN n' before and one
    JSON line {'n':..} after each.  A crash is attributed to the request whose BEGIN was last seen; the worker is restarted
    after it.  returns (responses {n: obj}, crashes [(req, info)])"""
    todo = list(reqs)
    resp, crashes = {}, []
    while todo:
        data = "\n".join(json.dumps(r, ensure_ascii=False) for r in todo) + "\n"
        r = run_proc([binary] + list(args), stdin=data, timeout=timeout, leaks=leaks, env=env)
        cur = None
        extra = {}
        for l in r["out"].splitlines():
            if l.startswith("BEGIN "):
                try:
                    cur = int(l[6:].split()[0])
                except ValueError:
                    pass
            elif l.startswith("{"):
                try:
                    o = json.loads(l)
                except Exception:
                    continue
                if "n" in o and o["n"] is not None and "crash_input" not in o:
                    resp[o["n"]] = o
                    if o["n"] == cur:
                        cur = None
                else:
                    extra.update(o)
        if r["rc"] == 0 and not r["timed_out"]:
            break
        idx = {q["n"]: i for i, q in enumerate(todo)}
        err = r["err"]
        info = {"rc": r["rc"], "stderr": err if len(err) < 9000 else err[:4000] + "\n[...]\n" + err[-4500:], "timed_out": r["timed_out"], "sig": san_signature(err)}
        info.update(extra)
        if cur is not None and cur in idx:
            crashes.append((todo[idx[cur]], info))
            todo = todo[idx[cur] + 1:]
        else:
            done = [q for q in todo if q["n"] in resp]
            if len(done) == len(todo):
                # died at exit (e.g. LeakSanitizer): not attributable to one request
                crashes.append(({"n": None, "batch": [q["n"] for q in todo][:3]}, info))
                break
            raise HarnessFailure("harness %s died outside a request: rc=%s\n%s" % (binary, r["rc"], r["err"][-3000:]))
    return resp, crashes


def chunked(seq, n):
    k = max(1, (len(seq) + n - 1) // n)
    return [seq[i:i + k] for i in range(0, len(seq), k)]


def drive_parallel(binary, reqs, jobs=None, **kw):
    jobs = jobs or NPROC
    parts = chunked(reqs, jobs * 2) if len(reqs) > jobs * 2 else [[r] for r in reqs]
    res = pmap(lambda p: drive(binary, p, **kw), parts, jobs)
    resp, crashes = {}, []
    for a, b in res:
        resp.update(a)
        crashes += b
    return resp, crashes


def crash_sig(info):
    if info.get("timed_out"):
        return "timeout"
    if info.get("rc") == 79 or "CASE-WATCHDOG" in info.get("stderr", ""):
        return "hang (case watchdog: a handler never returned)"
    return info.get("sig") or san_signature(info.get("stderr", "")) or "abnormal-exit rc=%s" % info.get("rc")


def memcheck(binary, args, stdin=None, timeout=7200):
    """runs an uninstrumented harness under valgrind memcheck; returns (run_proc result, [(kind, first qxmpp frame, text block)])"""
    import re
    cmd = ["valgrind", "--tool=memcheck", "--error-exitcode=99", "--leak-check=no", "--num-callers=30", "--track-origins=yes", "--error-limit=no", binary] + [str(a) for a in args]
    env = dict(os.environ, VERIF_ALARM_SCALE="10")   # valgrind is 30-50x slower: the harness's own watchdog must not fire
    env.pop("ASAN_OPTIONS", None)
    try:
        p = subprocess.run(cmd, input=stdin, capture_output=True, text=True, timeout=timeout, env=env)
        r = {"rc": p.returncode, "out": p.stdout, "err": p.stderr, "timed_out": False}
    except subprocess.TimeoutExpired as e:
        r = {"rc": -1, "out": (e.stdout or b"").decode("utf8", "replace") if isinstance(e.stdout, bytes) else (e.stdout or ""), "err": "", "timed_out": True}
    errors = []
    blocks = re.split(r"\n==\d+== \n", r["err"])
    for b in blocks:
        m = re.search(r"==\d+== (Conditional jump or move depends on uninitialised value|Use of uninitialised value of size \d+|Invalid (?:read|write) of size \d+|Syscall param [^\n]*uninitialised[^\n]*|Invalid free[^\n]*|Mismatched free[^\n]*|Source and destination overlap[^\n]*|Jump to the invalid address[^\n]*)", b)
        if not m:
            continue
        frames = re.findall(r"(?:at|by) 0x[0-9A-F]+: (.+?) \((?:in )?([^)]*)\)", b)
        first = next((f for f, where in frames if "/repo/" in where or "QXmpp" in f), frames[0][0] if frames else "?")
        first = re.sub(r"\(.*", "", first)
        errors.append((re.sub(r"\d+", "N", m.group(1)), first, b[-3000:]))
    return r, errors
