"""minimal raw XMPP client over a blocking socket: sends bytes, collects the peer's top-level elements"""
import socket, time, base64
import xml.etree.ElementTree as ET

HDR = "<?xml version='1.0'?><stream:stream to='%s' xmlns='jabber:client' xmlns:stream='http://etherx.jabber.org/streams' version='1.0'>"


class Raw:
    def __init__(self, port, timeout=2.0):
        self.s = socket.create_connection(("127.0.0.1", port), timeout=timeout)
        self.s.setsockopt(socket.IPPROTO_TCP, socket.TCP_NODELAY, 1)
        self.timeout = timeout
        self.log = []          # ("tx"|"rx", text)
        self.elements = []     # ET elements received (top-level children of the stream)
        self.closed = False
        self.sent_bytes = 0
        self._new_parser()

    def _new_parser(self):
        self.p = ET.XMLPullParser(events=("start", "end"))
        self.depth = 0

    def send(self, data, restart=False):
        if restart:
            self._new_parser()
        if isinstance(data, str):
            data = data.encode("utf8")
        self.log.append(("tx", data.decode("utf8", "replace")))
        try:
            self.s.sendall(data)
        except OSError:
            self.closed = True

    def _feed(self, data):
        self.log.append(("rx", data.decode("utf8", "replace")))
        out = []
        try:
            self.p.feed(data)
            for ev, el in self.p.read_events():
                if ev == "start":
                    self.depth += 1
                else:
                    if self.depth == 2:
                        out.append(el)
                    self.depth -= 1
        except ET.ParseError:
            self._new_parser()
        self.elements += out
        return out

    def read(self, until=None, timeout=None):
        """reads until `until(element)` is true for a received element, the peer closes or the timeout expires; returns the matching element or None"""
        end = time.time() + (timeout if timeout is not None else self.timeout)
        while True:
            left = end - time.time()
            if left <= 0:
                return None
            self.s.settimeout(left)
            try:
                data = self.s.recv(65536)
            except socket.timeout:
                return None
            except OSError:
                self.closed = True
                return None
            if not data:
                self.closed = True
                return None
            for el in self._feed(data):
                if until is not None and until(el):
                    return el

    def drain(self, quiet=0.05):
        """reads whatever arrives until nothing came for `quiet` seconds"""
        while not self.closed:
            self.s.settimeout(quiet)
            try:
                data = self.s.recv(65536)
            except socket.timeout:
                return
            except OSError:
                self.closed = True
                return
            if not data:
                self.closed = True
                return
            self._feed(data)

    def close(self):
        try:
            self.s.close()
        except OSError:
            pass


def local(el):
    return el.tag.split("}")[-1]


def plain(user, pw):
    return base64.b64encode(b"\0" + user.encode() + b"\0" + pw.encode()).decode()
