"""driver for the codec harness: runs worker processes, collects violations / summaries / aborts"""
import json, os
import vf

SEEDS = os.path.join(vf.VERIF, "corpus", "seeds.jsonl")


SIB = 0   # systematic vocabulary-sibling cases per element (set by the C02 check)


def run_worker(binary, args, timeout=3600, heavy=False, start=0):
    extra = {"ASAN_OPTIONS": vf.SAN_ENV["ASAN_OPTIONS"] + ":hard_rss_limit_mb=8000", "VERIF_START_CASE": str(start), "VERIF_SIB": str(SIB), "VERIF_NWORKERS": str(vf.NPROC)}
    if heavy:
        extra["VERIF_HEAVY"] = "1"
    env = vf.env_for(extra=extra)
    r = vf.run_proc([binary] + [str(a) for a in args], timeout=timeout, env=env)
    viols, summary, abort = [], None, None
    for o in vf.jsonl(r["out"]):
        if o.get("summary"):
            summary = o
        elif "abort" in o:
            abort = o
        elif "violation" in o:
            viols.append(o)
    crash = None
    if r["rc"] != 0 or r["timed_out"]:
        err = r["err"]
        crash = {"rc": r["rc"], "timed_out": r["timed_out"], "stderr": err if len(err) < 7000 else err[:3000] + "\n[...]\n" + err[-3500:], "abort": abort,
                 "sig": vf.san_signature(err)}
    return viols, summary, crash


def add_crash(V, crash, args, what, binary=None):
    a = crash.get("abort") or {}
    if a.get("abort") == "timeout" and binary and a.get("case") is not None and len(args) == 5:
        # the per-application watchdog fired: a loaded machine or a parser that does not terminate? the case is repeated alone
        v2, s2, c2 = run_worker(binary, list(args) + [a["case"]], timeout=600)
        a2 = (c2 or {}).get("abort") or {}
        if c2 and (a2.get("abort") == "timeout" or c2["timed_out"]):
            V.violation("hang in %s" % (a.get("what") or "?").split(" ")[0], "a parser or serializer did not come back within the watchdog (twice, the second time alone on the machine's share): unbounded time on a well-formed element",
                        {"harness_args": [str(x) for x in args], "case": a.get("case"), "doc": a.get("doc"), "stage": a.get("what")})
            return
    if crash["timed_out"] or a.get("abort") == "timeout":
        V.inconc("watchdog in %s case %s (%s)" % (what, a.get("case"), a.get("what")))
        return
    sig = crash.get("sig") or vf.san_signature(crash["stderr"]) or ("signal/abort rc=%s" % crash["rc"])
    if "hard rss limit" in crash["stderr"].lower() or "hard_rss_limit" in crash["stderr"]:
        sig = "memory-limit-exceeded"
    V.violation("crash %s in %s" % (sig, (a.get("what") or "?").split(" ")[0]), "sanitizer report / abnormal exit while %s handled a well-formed element" % (a.get("what") or what),
                {"harness_args": [str(x) for x in args], "case": a.get("case"), "doc": a.get("doc"), "stderr": crash["stderr"][-4000:]})


def run_worker_restarting(binary, args, timeout=3600, heavy=False, max_restarts=40):
    """runs a worker to completion, restarting it after each case that killed it; returns (violations, [summaries], [crashes])"""
    viols, sums, crashes = [], [], []
    start = 0
    hangs = 0
    for _ in range(max_restarts):
        v, s, c = run_worker(binary, args, timeout, heavy, start)
        viols += v
        if s:
            sums.append(s)
        if not c:
            break
        crashes.append(c)
        if (c.get("abort") or {}).get("abort") == "timeout":
            hangs += 1
            if hangs >= 3:
                break   # a tree on which parsers hang again and again: three witnesses per worker are enough, the rest of the workload is skipped
        case = (c.get("abort") or {}).get("case")
        if case is None or c["timed_out"]:
            break
        start = int(case) + 1
    return viols, sums, crashes
