#!/usr/bin/env python3
"""runs every seeded change in /verif/seeded against the check of its property:
applies the patch in a scratch worktree of /repo's HEAD (/tmp/wt-matrix, one incremental sanitizer build for all seeds), runs
VERIF_REPO=<worktree> ./run <id> <tier>, undoes it, stores seeded/<dir>/result.json. /repo itself is never touched; the worktree and its
build directory are removed at the end."""
import json, os, re, subprocess, sys, time
V = os.path.dirname(os.path.dirname(os.path.abspath(__file__)))
tier = sys.argv[1] if len(sys.argv) > 1 else "quick"
only = sys.argv[2:]
import hashlib, shutil
WT = os.environ.get("MATRIX_WT", "/tmp/wt-matrix")   # several matrices may run side by side, each with a worktree of its own
subprocess.run(["git", "-C", "/repo", "worktree", "remove", "--force", WT], capture_output=True)
shutil.rmtree(WT, ignore_errors=True)
subprocess.run(["git", "-C", "/repo", "worktree", "prune"], capture_output=True)
r0 = subprocess.run(["git", "-C", "/repo", "worktree", "add", "--detach", WT, "HEAD"], capture_output=True, text=True)
if r0.returncode:
    print("cannot create worktree:", r0.stderr); sys.exit(3)
for d in sorted(os.listdir(os.path.join(V, "seeded"))):
    sd = os.path.join(V, "seeded", d)
    if not os.path.isdir(sd) or (only and d not in only):
        continue
    pid = d.split("-")[0]
    patch = os.path.join(sd, "patch.rebased.diff") if os.path.exists(os.path.join(sd, "patch.rebased.diff")) else os.path.join(sd, "patch.diff")
    if not os.path.exists(patch):
        continue
    r = subprocess.run(["git", "-C", WT, "apply", patch], capture_output=True, text=True)
    if r.returncode:
        print(d, "does not apply:", r.stderr[:200]); continue
    t0 = time.time()
    try:
        p = subprocess.run(["./run", pid, tier], cwd=V, capture_output=True, text=True, env=dict(os.environ, VERIF_EVIDENCE_DIR="/tmp/seed_matrix_evidence" + WT.replace("/", "_"), VERIF_REPO=WT))
    finally:
        subprocess.run(["git", "-C", WT, "checkout", "--", "."])
    sigs = sorted(set(re.findall(r"^  signature: (.*)$", p.stdout, re.M)))
    old = {}
    try:
        old = json.load(open(os.path.join(sd, "result.json")))
    except Exception:
        pass
    res = {"check": pid, "tier": tier, "exit": p.returncode, "violation_lines": len(re.findall(r"^VIOLATION ", p.stdout, re.M)), "signatures": sigs[:12], "wall_s": round(time.time() - t0)}
    if old.get("first_attempt"):
        res["first_attempt"] = old["first_attempt"]
    json.dump(res, open(os.path.join(sd, "result.json"), "w"), indent=1)
    print(d, res["exit"], res["violation_lines"], sigs[:3], flush=True)

tag = hashlib.sha1(os.path.abspath(WT).encode()).hexdigest()[:8]
for fl in ("asan", "plain"):
    shutil.rmtree(os.path.join(V, ".build", fl + "-" + tag), ignore_errors=True)
subprocess.run(["git", "-C", "/repo", "worktree", "remove", "--force", WT], capture_output=True)
