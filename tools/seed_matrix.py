#!/usr/bin/env python3
"""runs every seeded change in /verif/seeded against the check of its property (and optional extra checks):
applies the patch to /repo, runs ./run <id> <tier>, undoes it, stores seeded/<dir>/result.json. Leaves /repo clean."""
import json, os, re, subprocess, sys, time
V = os.path.dirname(os.path.dirname(os.path.abspath(__file__)))
tier = sys.argv[1] if len(sys.argv) > 1 else "quick"
only = sys.argv[2:]
for d in sorted(os.listdir(os.path.join(V, "seeded"))):
    sd = os.path.join(V, "seeded", d)
    if not os.path.isdir(sd) or (only and d not in only):
        continue
    pid = d.split("-")[0]
    patch = os.path.join(sd, "patch.rebased.diff") if os.path.exists(os.path.join(sd, "patch.rebased.diff")) else os.path.join(sd, "patch.diff")
    if subprocess.run(["git", "-C", "/repo", "status", "--porcelain", "--untracked-files=no"], capture_output=True, text=True).stdout.strip():
        print("repo not clean"); sys.exit(3)
    r = subprocess.run(["git", "-C", "/repo", "apply", patch], capture_output=True, text=True)
    if r.returncode:
        print(d, "does not apply:", r.stderr[:200]); continue
    t0 = time.time()
    try:
        p = subprocess.run(["./run", pid, tier], cwd=V, capture_output=True, text=True, env=dict(os.environ, VERIF_EVIDENCE_DIR="/tmp/seed_matrix_evidence"))
    finally:
        subprocess.run(["git", "-C", "/repo", "checkout", "--", "."])
    sigs = sorted(set(re.findall(r"^  signature: (.*)$", p.stdout, re.M)))
    res = {"check": pid, "tier": tier, "exit": p.returncode, "violation_lines": len(re.findall(r"^VIOLATION ", p.stdout, re.M)), "signatures": sigs[:12], "wall_s": round(time.time() - t0)}
    json.dump(res, open(os.path.join(sd, "result.json"), "w"), indent=1)
    print(d, res["exit"], res["violation_lines"], sigs[:3], flush=True)
