#!/bin/bash
# tools/try_patch.sh <patch.diff> <Cxx> [tier]   — apply a seeded change to /repo, run the check, undo it
set -u
P=$(readlink -f "$1"); ID=$2; TIER=${3:-quick}
cd /verif
git -C /repo apply "$P" || { echo "patch does not apply"; exit 3; }
VERIF_EVIDENCE_DIR=/tmp/try_evidence ./run $ID $TIER > /tmp/try_$ID.log 2>&1; rc=$?
git -C /repo checkout -- . 
grep -E "^(VIOLATION|KNOWN-FINDING|HARNESS-FAILURE|INCONCLUSIVE|\[C)" /tmp/try_$ID.log | head -${LINES_MAX:-12}
echo "exit=$rc"
