#!/usr/bin/env python3
"""generates harness/fields_gen.h: one F(Class, setter, getter) line per setter/getter pair of a supported value type,
found in the public and private headers of /repo for the classes of the codec registry. Re-run by hand after header changes."""
import glob, os, re, sys
V = os.path.dirname(os.path.dirname(os.path.abspath(__file__)))
REPO = os.environ.get("VERIF_REPO", "/repo")
reg = open(os.path.join(V, "harness/codec_registry.h")).read()
names = re.findall(r"REGC?\((Q[A-Za-z0-9_]+)[,)]", reg)
names = list(dict.fromkeys(names)) + ["QXmppStanza", "QXmppBitsOfBinaryData", "QXmppDiscoveryIq", "QXmppRosterIq", "QXmppJingleIq::Content", "QXmppStanza::Error", "QXmppRosterIq::Item"]
headers = {}
for f in glob.glob(REPO + "/src/base/*.h") + glob.glob(REPO + "/src/client/*.h") + glob.glob(REPO + "/src/base/compat/*.h"):
    headers[f] = open(f).read()
SCALAR = r"(?:bool|int|unsigned int|unsigned char|unsigned|long|short|double|float|u?int(?:8|16|32|64)_t|std::u?int(?:8|16|32|64)_t|q?u?int(?:8|16|32|64)|quint64|qint64|QString|QByteArray|QDateTime|QStringList|QUrl|QDate|QList<QString>|QVector<QString>|QMimeType|QHostAddress|QMap<QString, QString>|QList<int>|QList<QByteArray>)"
ARG = re.compile(r"^(?:const\s+)?(%s|std::optional<\s*%s\s*>)\s*&?\s*\w*$" % (SCALAR, SCALAR))


def class_body(text, name):
    if "::" in name:
        # nested class: the body of Inner inside the raw body of Outer
        outer, inner = name.split("::", 1)
        m0 = re.search(r"class\s+(?:QXMPP_EXPORT\s+|QXMPP_AUTOTEST_EXPORT\s+)?%s\b[^;{]*\{" % re.escape(outer), text)
        if not m0:
            return None
        i = m0.end()
        depth = 1
        while i < len(text) and depth:
            depth += text[i] == "{"
            depth -= text[i] == "}"
            i += 1
        return class_body(text[m0.end():i], inner)
    m = re.search(r"class\s+(?:QXMPP_EXPORT\s+|QXMPP_AUTOTEST_EXPORT\s+)?%s\b[^;{]*\{" % re.escape(name), text)
    if not m:
        return None
    i = m.end()
    depth = 1
    while i < len(text) and depth:
        depth += text[i] == "{"
        depth -= text[i] == "}"
        i += 1
    body = text[m.end():i]
    # drop nested class bodies
    out, depth = [], 0
    for ch in body:
        if ch == "{":
            depth += 1
        elif ch == "}":
            depth -= 1
        elif depth == 0:
            out.append(ch)
    return "".join(out)


# ---- enum-valued setters: FE(Class, setter, getter, enumerator, ...) with every enumerator of the parameter's enum type
def strip_comments(t):
    t = re.sub(r"//[^\n]*", "", t)
    return re.sub(r"/\*.*?\*/", "", t, flags=re.S)


def collect_enums():
    """{qualified enum name: [qualified enumerators]} over all headers (scopes: namespaces, classes, structs)"""
    enums = {}
    tok = re.compile(r"\b(namespace|class|struct|enum(?:\s+class)?)\b\s*((?:QXMPP_\w+\s+)?[\w:]*)[^;{()]*?([;{])|([{}])")
    for f, text in headers.items():
        text = strip_comments(text)
        scope = []      # (name or None)
        i = 0
        while True:
            m = tok.search(text, i)
            if not m:
                break
            i = m.end()
            if m.group(4) == "{":
                scope.append(None)
            elif m.group(4) == "}":
                if scope:
                    scope.pop()
            elif m.group(3) == ";":
                continue
            else:
                kind, name = m.group(1), (m.group(2) or "").split()[-1] if m.group(2).strip() else ""
                if kind.startswith("enum"):
                    j = text.find("}", i)
                    body = re.sub(r"(?m)^\s*#.*$", "", text[i:j])
                    i = j + 1
                    q = "::".join([s for s in scope if s] + ([name] if name else []))
                    vals = []
                    for part in body.split(","):
                        part = part.strip()
                        if not part:
                            continue
                        en = re.match(r"(\w+)", part)
                        if en and "deprecated" not in part.lower() and not re.match(r"\w+\s*=\s*[A-Za-z_]", part):
                            vals.append(en.group(1))
                    pre = q if "class" in kind else "::".join([s for s in scope if s])
                    if name:
                        enums[q] = [(pre + "::" + v) if pre else v for v in vals]
                else:
                    scope.append(name or None)
    return enums


def enum_fields():
    enums = collect_enums()
    out = []
    for n in sorted(set(names)):
        if n in SKIP_CLASSES:
            continue
        body = None
        for f, t in headers.items():
            body = class_body(t, n)
            if body:
                break
        if not body:
            continue
        body = strip_comments(body)
        setters = re.findall(r"void\s+(set[A-Z]\w*)\(([^()]*)\)\s*;", body)
        for s, arg in setters:
            if len([1 for s2, _ in setters if s2 == s]) > 1:
                continue
            arg = " ".join(arg.replace("const ", " ").replace("&", " ").replace("enum ", " ").split())
            m = re.match(r"^(?:std::optional<\s*([\w:]+)\s*>|([\w:]+))(?:\s+\w+)?$", arg)
            if not m:
                continue
            ty = m.group(1) or m.group(2)
            q = None
            for cand in (n + "::" + ty, ty, "QXmpp::" + ty):
                if cand in enums:
                    q = cand
                    break
            if not q or not enums[q]:
                continue
            base = s[3:]
            for g in (base[0].lower() + base[1:], "is" + base):
                if re.search(r"(?:[\w>]\s+[&*]?|[&*]\s*)%s\(\)\s*const" % re.escape(g), body):
                    out.append("FE(%s, %s, %s, %s);" % (n, s, g, ", ".join(enums[q])))
                    break
    return out


lines = []
EXCLUDE = {("QXmppTuneItem", "setLength")}  # overloaded (QTime / seconds)
SKIP_CLASSES = {"QXmppStanza", "QXmppBitsOfBinaryData"}  # abstract / serialized through *FromChild only; see fields_hand.h
for n in sorted(set(names)):
    if n in SKIP_CLASSES:
        continue
    body = None
    for f, t in headers.items():
        body = class_body(t, n)
        if body:
            break
    if not body:
        continue
    body = re.sub(r"//[^\n]*", "", body)
    body = re.sub(r"/\*.*?\*/", "", body, flags=re.S)
    pub = body  # private setters do not exist in these classes
    setters = re.findall(r"void\s+(set[A-Z]\w*)\(([^()]*)\)\s*;", pub)
    seen = set()
    for s, arg in setters:
        arg = " ".join(arg.split())
        if s in seen or not ARG.match(arg) or (n, s) in EXCLUDE:
            continue
        if len([1 for s2, _ in setters if s2 == s]) > 1:
            continue  # overloaded
        base = s[3:]
        for g in (base[0].lower() + base[1:], "is" + base, base[0].lower() + base[1:] + "Enabled", "has" + base):
            if re.search(r"(?:[\w>]\s+[&*]?|[&*]\s*)%s\(\)\s*const" % re.escape(g), pub):
                lines.append("F(%s, %s, %s);" % (n, s, g))
                seen.add(s)
                break
lines += enum_fields()
open(os.path.join(V, "harness/fields_gen.h"), "w").write("// generated by tools/gen_fields.py - do not edit (reference list; the harness compiles the fields_part_<n>.h files)\n" + "\n".join(lines) + "\n")
print(len(lines), "fields")

# ---- parts: generated + hand-written lines, whole classes together, balanced; compiled in parallel (lib/vf.py PARTS)
NPARTS = 8
hand = [l.strip() for l in open(os.path.join(V, "harness/fields_hand.h")) if re.match(r"\s*(F|FE|M|MB|OL|OO|OP)\(", l)]
by_class = {}
for l in lines + hand:
    cls = re.match(r"\w+\(([^,]+),", l).group(1).strip()
    by_class.setdefault(cls, []).append(l)
bins = [[] for _ in range(NPARTS)]
load = [0] * NPARTS
for cls, ls in sorted(by_class.items(), key=lambda kv: -len(kv[1])):
    k = load.index(min(load))
    bins[k] += ls
    load[k] += len(ls) + 2
for k in range(NPARTS):
    open(os.path.join(V, "harness/fields_part_%d.h" % k), "w").write("// generated by tools/gen_fields.py - do not edit\n" + "\n".join(bins[k]) + "\n")
open(os.path.join(V, "harness/fields_parts.h"), "w").write("// generated by tools/gen_fields.py - do not edit\n#define NPARTS %d\n%s\n#define RUN_ALL_PARTS %s\n" % (
    NPARTS, "\n".join("void runPart%d();" % k for k in range(NPARTS)), " ".join("runPart%d();" % k for k in range(NPARTS))))
print("parts:", load)
