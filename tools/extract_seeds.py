#!/usr/bin/env python3
"""lifts well-formed XML documents from the string literals of /repo/tests/**/*.cpp (run once; output committed as corpus/seeds.jsonl)"""
import glob, json, re, sys
from xml.dom import minidom

LIT = re.compile(r'(?:u8|u|L)?"((?:[^"\\\n]|\\.)*)"')
RAW = re.compile(r'R"([^(\s]*)\((.*?)\)\1"', re.S)

def unescape(s):
    out, i = [], 0
    while i < len(s):
        c = s[i]
        if c == "\\" and i + 1 < len(s):
            n = s[i + 1]
            m = {"n": "\n", "t": "\t", '"': '"', "\\": "\\", "'": "'", "r": "\r", "0": "\0"}
            if n in m:
                out.append(m[n]); i += 2; continue
            if n == "x":
                j = i + 2
                while j < len(s) and s[j] in "0123456789abcdefABCDEF": j += 1
                out.append(chr(int(s[i + 2:j], 16) & 0xff)); i = j; continue
            if n == "u":
                out.append(chr(int(s[i + 2:i + 6], 16))); i += 6; continue
            out.append(n); i += 2; continue
        out.append(c); i += 1
    return "".join(out)

def literals(src):
    # raw strings first
    for m in RAW.finditer(src):
        yield m.group(2)
    src = RAW.sub('""', src)
    # join adjacent literals: sequences of "..." separated only by whitespace / macro wrappers
    pos = 0
    cur, last_end = [], None
    for m in LIT.finditer(src):
        between = src[last_end:m.start()] if last_end is not None else None
        if cur and between is not None and re.fullmatch(r"[\s]*", between):
            cur.append(unescape(m.group(1)))
        else:
            if cur:
                yield "".join(cur)
            cur = [unescape(m.group(1))]
        last_end = m.end()
    if cur:
        yield "".join(cur)

def main():
    seen, out = set(), []
    for f in sorted(glob.glob("/repo/tests/**/*.cpp", recursive=True)) + sorted(glob.glob("/repo/tests/**/*.h", recursive=True)):
        src = open(f, encoding="utf8", errors="replace").read()
        for lit in literals(src):
            s = lit.strip()
            if not s.startswith("<") or not s.endswith(">") or len(s) < 5:
                continue
            # mojibake from "\xc3\xa9"-style escapes: re-decode as utf-8 where possible
            try:
                s2 = s.encode("latin-1").decode("utf8")
                s = s2
            except Exception:
                pass
            try:
                d = minidom.parseString(s.encode("utf8"))
            except Exception:
                try:
                    d = minidom.parseString(("<stream:stream xmlns:stream='http://etherx.jabber.org/streams'>%s</stream:stream>" % s).encode("utf8"))
                    continue   # needs the stream prefix: skip (kept simple)
                except Exception:
                    continue
            if s in seen:
                continue
            seen.add(s)
            root = d.documentElement
            out.append({"src": f.replace("/repo/", ""), "root": root.tagName, "ns": root.namespaceURI or "", "xml": s})
    with open("/verif/corpus/seeds.jsonl", "w") as fo:
        for o in out:
            fo.write(json.dumps(o, ensure_ascii=False) + "\n")
    roots = set((o["root"], o["ns"]) for o in out)
    print("%d documents, %d distinct roots" % (len(out), len(roots)))

main()
