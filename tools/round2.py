#!/usr/bin/env python3
"""tools/round2.py <Cxx> [suffix=b]: takes a sub-agent's scratch worktree /tmp/wt-<Cxx><suffix> (patch applied, _b built, _seed/ filled),
copies the deliverables to seeded/<Cxx>-<suffix>/, confirms (suite with patch; demo fails with patch, passes without), runs the property's
quick check against the patched worktree (VERIF_REPO, own build dir), writes result.json + confirm line, removes worktree and build dir."""
import json, os, re, shutil, subprocess, sys, hashlib
V = os.path.dirname(os.path.dirname(os.path.abspath(__file__)))
pid, suf = sys.argv[1], (sys.argv[2] if len(sys.argv) > 2 else "b")
wt = "/tmp/wt-%s%s" % (pid, suf)
sd = os.path.join(V, "seeded", "%s-%s" % (pid, suf))
os.makedirs(sd, exist_ok=True)
for f in os.listdir(os.path.join(wt, "_seed")):
    p = os.path.join(wt, "_seed", f)
    if os.path.isfile(p) and os.path.getsize(p) < 400000:
        shutil.copy(p, sd)
sh = lambda c, **k: subprocess.run(c, shell=True, capture_output=True, text=True, **k)
patch = os.path.join(sd, "patch.diff")
# state: patch applied (as the agent left it)?
if sh("git -C %s apply --check -R %s" % (wt, patch)).returncode != 0:
    print("patch not applied in worktree; applying"); print(sh("git -C %s apply %s" % (wt, patch)).stderr)
b = sh("cmake --build %s/_b -j12" % wt)
build_ok = b.returncode == 0
t = sh("ctest --test-dir %s/_b -j6 --timeout 900" % wt)
failed = sorted(set(re.findall(r"^\s*\d+ - (\S+) \(", t.stdout, re.M)))
if set(failed) - {"tst_qxmppiceconnection"}:
    t2 = sh("ctest --test-dir %s/_b -j1 --rerun-failed --timeout 900" % wt)
    failed2 = sorted(set(re.findall(r"^\s*\d+ - (\S+) \(", t2.stdout, re.M)))
else:
    failed2 = failed
def demo():
    shutil.rmtree(os.path.join(wt, "seed-demo"), ignore_errors=True)
    shutil.copytree(sd, os.path.join(wt, "seed-demo"))
    scr = open(os.path.join(sd, "build_and_run.sh")).read()
    # argument order differs between agents: find out from the usage line
    first_is_source = bool(re.search(r"\[source[- ]tree\]\s*\[build", scr, re.I))
    args = "%s %s/_b" % (wt, wt) if first_is_source else "%s/_b %s" % (wt, wt)
    r = sh("cd %s/seed-demo && timeout 900 sh ./build_and_run.sh %s" % (wt, args))
    return r.returncode, (r.stdout + r.stderr)[-1500:]
d_patched, out_p = demo()
sh("git -C %s apply -R %s" % (wt, patch))
sh("cmake --build %s/_b -j12 --target QXmppQt5" % wt)
d_clean, out_c = demo()
sh("git -C %s apply %s" % (wt, patch))
shutil.rmtree(os.path.join(wt, "seed-demo"), ignore_errors=True)
line = "%s-%s build=%s tests_failed_j6=%s tests_failed_after_serial_rerun=%s demo_clean_exit=%s demo_patched_exit=%s" % (pid, suf, "ok" if build_ok else "FAIL", failed, failed2, d_clean, d_patched)
print(line)
open(os.path.join(V, "seeded", "CONFIRMED.txt"), "a").write(line + "\n")
# the property's check against the patched worktree
env = dict(os.environ, VERIF_REPO=wt, VERIF_EVIDENCE_DIR="/tmp/round2_evidence")
p = subprocess.run(["./run", pid, "quick"], cwd=V, capture_output=True, text=True, env=env)
sigs = sorted(set(re.findall(r"^  signature: (.*)$", p.stdout, re.M)))
res = {"check": pid, "tier": "quick", "exit": p.returncode, "violation_lines": len(re.findall(r"^VIOLATION ", p.stdout, re.M)), "signatures": sigs[:12], "ran_against": "the agent's scratch worktree (VERIF_REPO), patch applied"}
json.dump(res, open(os.path.join(sd, "result.json"), "w"), indent=1)
open("/tmp/round2_%s%s.log" % (pid, suf), "w").write(p.stdout[-20000:] + "\n---\n" + p.stderr[-5000:])
print(pid, suf, "check exit", p.returncode, sigs[:4])
tag = hashlib.sha1(os.path.abspath(wt).encode()).hexdigest()[:8]
if "--keep" not in sys.argv:
    for fl in ("asan", "plain"):
        shutil.rmtree(os.path.join(V, ".build", fl + "-" + tag), ignore_errors=True)
    sh("git -C /repo worktree remove --force %s" % wt)
    shutil.rmtree(wt, ignore_errors=True)
