#!/usr/bin/env python3
"""tools/mkprompt.py <Cxx> <suffix>: prints the prompt handed to a fresh sub-agent for a seeded change (round >= 3).
The agent gets the property text, its quantifier and anchors, a scratch worktree /tmp/wt-<Cxx><suffix> and one paragraph per earlier
seed of the same property (what was changed, so that it goes elsewhere) - nothing from /verif's checks."""
import json, os, sys
V = os.path.dirname(os.path.dirname(os.path.abspath(__file__)))
pid, suf = sys.argv[1], sys.argv[2]
focus = sys.argv[3] if len(sys.argv) > 3 else ""
prop = [json.loads(l) for l in open(os.path.join(V, "properties.jsonl")) if json.loads(l)["id"] == pid][0]
wt = "/tmp/wt-%s%s" % (pid, suf)
earlier = []
for d in sorted(os.listdir(os.path.join(V, "seeded"))):
    if d.startswith(pid + "-") and "regress" not in d:
        try:
            m = json.load(open(os.path.join(V, "seeded", d, "meta.json")))
            earlier.append((m.get("change") or "")[:700])
        except Exception:
            pass
T = """You are helping test a verification framework by "seeding" a realistic bug. You work ONLY in the scratch git worktree {wt} (a checkout of the QXmpp C++/Qt XMPP library, Qt 5.15, g++ 12, C++20). Never touch /repo or /verif, and do not read anything under /verif. No network is available.

Here is a semantic property of QXmpp that is supposed to hold:

--- PROPERTY {pid}: {title} ---
{statement}
Quantified over: {quant}
Anchored in files: {files}
---

Your task: produce ONE small source change to the library (under {wt}/src) that BREAKS this property, while
 (a) still compiling,
 (b) still passing the existing test-suite, and
 (c) NOT being exposed by ordinary use at once: the break must need something specific to manifest — a particular interleaving or ordering of events, a crash/fault/connection loss at a particular point, a multi-step sequence of operations, an unusual input (boundary value, odd combination of fields), or two cooperating sites that each look fine alone. Make it look like a plausible developer mistake or well-meant refactoring/optimisation, not sabotage. Do NOT pick a defect that already exists in the unchanged tree; the change must make something that works today stop working.

IMPORTANT — diversity: other engineers have already seeded these changes for the same property:
{earlier}
Choose something DIFFERENT from all of them: another function or file, and another clause of the property statement (read the statement again and pick a part of it none of the changes above touches — if every clause is touched, pick another code path / class / input dimension that realises the clause). Prefer a break whose visible symptom is different in kind (e.g. a lost/duplicated event instead of a wrong value, a state left behind instead of a wrong reply, something that only shows in a later session or with a rarely used API of the same subsystem).{focus}

Also produce a DEMONSTRATION: a small stand-alone C++ program (or QtTest) that exits 0 / passes on the unchanged tree and exits non-zero / fails with your change applied, showing the property violation concretely.

How to build and test (use at most 4 parallel jobs, other work shares this machine):
  cmake -G Ninja -S {wt} -B {wt}/_b -DCMAKE_BUILD_TYPE=RelWithDebInfo -DBUILD_INTERNAL_TESTS=ON -DBUILD_EXAMPLES=OFF
  cmake --build {wt}/_b -j4
  ctest --test-dir {wt}/_b -j4 --timeout 900
On the unchanged tree tst_qxmppiceconnection always fails (needs Internet) and tst_qxmppserver is flaky; ignore those two, all other tests must pass with your change.
A stand-alone demo can be compiled against the shared library in {wt}/_b/src (libQXmppQt5.so), e.g.
  g++ -std=c++20 -fPIC -I{wt}/src/base -I{wt}/src/client -I{wt}/src/server -I{wt}/_b/src $(pkg-config --cflags Qt5Core Qt5Network Qt5Xml) demo.cpp -L{wt}/_b/src -lQXmppQt5 -Wl,-rpath,{wt}/_b/src $(pkg-config --libs Qt5Core Qt5Network Qt5Xml) -o demo
(Private headers such as *_p.h are includable; symbols not exported from the shared lib need a BUILD_SHARED=OFF static build or a QtTest added to tests/ — your choice. The test sources under {wt}/tests show how the library's own tests reach internals, e.g. tests/TestClient.h.)

Deliverables, all placed in the directory {wt}/_seed/ :
  patch.diff   — `git -C {wt} diff -- src` of your change (library sources only; do not include the demo or build dirs)
  demo.cpp (or demo test file) + a build_and_run.sh taking two arguments `<build dir> <source tree>` that builds and runs the demo against that build dir and exits with the demo's status
  NOTES.md     — first paragraph: what the change is (file, function, before/after); then why it breaks the property, what specific condition it needs to manifest, and the exact commands you ran with their outcomes (full test-suite result with the patch; demo result with and without the patch).
Before finishing: verify yourself that (1) with the patch the library builds and ctest passes apart from the two tests named above, (2) the demo fails with the patch and passes without it (git stash / git apply -R to check). Leave the worktree with the patch APPLIED and the build directory in place. Reply with a short summary (what you changed, where, what it needs to manifest, and the verification outcomes)."""
print(T.format(wt=wt, pid=pid, title=prop["title"], statement=prop["statement"], quant=prop["quantifier"]["text"],
               files=", ".join(prop["anchors"]["files"]),
               earlier="\n".join("  %d. %s" % (i + 1, e.replace("\n", " ")) for i, e in enumerate(earlier)) or "  (none yet)",
               focus=(" " + focus) if focus else ""))
