#!/usr/bin/env python3
"""regenerates /verif/MANIFEST.json from the table below (kept by hand)"""
import json, os, subprocess
V = os.path.dirname(os.path.dirname(os.path.abspath(__file__)))
props = [json.loads(l) for l in open(os.path.join(V, "properties.jsonl"))]

ENGINES = {
 "task": ("harness/task.cpp", "exhaustive ordering enumerator on the real promise/task under ASan/UBSan/LSan with counters"),
 "atm": ("harness/atm.cpp", "QXmppAtmManager + memory storage behind a real (unconnected) QXmppClient, driven by manual decisions and injected decrypted messages; full state snapshot after every step"),
 "caps": ("harness/caps.cpp", "QXmppDiscoveryIq::verificationString() for setter-built and XML-parsed info sets; Python XEP-0115 oracle"),
 "codec": ("harness/codec.cpp", "registry of 125 parse/toXml pairs of the library; DOM mutators, transparent-position probing, canonical comparison; under ASan/UBSan"),
 "msg": ("harness/msg.cpp", "QXmppMessage split into public/sensitive parts the way the encrypted send path and the OMEMO manager do it, and recovered from both parts"),
 "sasl": ("harness/sasl.cpp", "SaslManager / Sasl2Manager / QXmppSaslClient behind a mock SendDataInterface, driven by JSON lines; Python reference choice function and RFC implementations"),
 "server": ("harness/server.cpp", "the real QXmppServer on loopback with a logging password checker; raw scripted TCP clients and a logged-in victim are played from Python (lib/rawxmpp.py)"),
 "split": ("harness/split.cpp", "loopback TCP feeder that delivers a byte stream to the real XmppSocket chunk by chunk and records the open/stanza/close events and the observed read sizes"),
 "wire": ("harness/wire.cpp", "scripted fake XMPP server (QTcpServer/QSslSocket on 127.0.0.1:0, incremental XML reader, own XEP-0198 counters, TLS with a committed test certificate, relay mode) and real QXmppClient objects in one event loop; journal of every element in both directions, client signal, task completion and state query"),
 "ice": ("harness/ice.cpp", "two real QXmppIceConnection agents on loopback UDP behind a relay the harness controls (drops chosen first transmissions, logs every datagram) plus an attacker socket that sends datagrams forged by an independent Python STUN encoder and records everything it receives"),
 "stun": ("harness/stun.cpp", "QXmppStunMessage encode/decode + HMAC/CRC helpers driven by JSON lines; Python hmac/zlib oracle"),
}
CHECKS = {
 "C13": dict(engine="task", cat="exploration",
   text="every ordering (length <= 6 quick / 8 thorough) of create/copy/attach/finish/destroy-context/drop and re-entrant actions, for 4 result types, executed on the real classes under ASan+UBSan+LSan with invocation counters, identity-tagged values and an allocation balance; exhaustive up to the bound",
   note="holds only for orderings within the bound, driven from one thread; ASan red-zone limits",
   tech="runtime monitoring: sanitizers (ASan/UBSan/LSan) + counter/accounting oracle over exhaustively enumerated operation orderings"),
 "C14": dict(engine="stun", cat="exploration",
   text="random messages over every attribute x key lengths 0..300 x fingerprint on/off round-tripped through the real codec; MESSAGE-INTEGRITY/FINGERPRINT recomputed by Python hmac/zlib; every single-bit flip of sampled protected messages and wrong keys must be refused; HMAC helpers for every key length 0..300; 10^6 (quick) / 10^8 (thorough) random and structure-aware byte strings under ASan/UBSan",
   note="Python hashlib/hmac/zlib trusted; generated attribute values are RFC-conforming ones; sanitizer red-zone limits",
   tech="runtime monitoring: differential oracle (Python hmac/zlib) + bit-flip fault injection + sanitizer fuzzing (ASan/UBSan)"),
}
CHECKS["C05"] = dict(engine="sasl", cat="exploration",
   text="the real SaslManager and Sasl2Manager are asked to negotiate for every offered subset of a 12-name universe x 64 disabled sets x 13 preferred mechanisms x 6 credential states (SASL, SASL2 with and without FAST; thorough: all 4096 subsets = 6.1e7 evaluations, quick: seeded slice + singletons/pairs) plus random offers over 29 names with duplicates and garbled names; the emitted mechanism or the mismatch error is compared with a 30-line Python reference written from the statement",
   note="reference = our reading of the statement's order; managers run behind a mock socket",
   tech="runtime monitoring: differential oracle (Python reference choice function) over exhaustively enumerated configurations, under ASan/UBSan")
CHECKS["C06"] = dict(engine="sasl", cat="exploration",
   text="Python implementations of RFC 5802/7677, 2831, 4616 and XEP-0484 generate complete exchanges (honest, 15 corrupted SCRAM server variants, DIGEST-MD5 variants, re-logins of the same account with another password in one process) that are replayed on the real mechanism objects byte for byte; 10 server message sequences through SaslManager/Sasl2Manager decide 'success reported => valid server signature was delivered'",
   note="Python hashlib/hmac/stringprep trusted; credentials restricted to SASLprep-identity strings; DIGEST-MD5 ISO 8859-1 re-encoding rule not judged",
   tech="runtime monitoring: differential oracle (independent Python RFC implementations) + misbehaving-server sequences, under ASan/UBSan")
CHECKS["C01"] = dict(engine="codec", cat="exploration",
   text="(0) scalar helpers: exhaustive 8/16-bit integer round trips, boundaries of 32/64-bit, booleans, base64 of every length, 40000 date-times, all minute offsets; (2,3) for every (seed document incl. every sub-element, registered type) pair the type admits: the library's own output must be admitted by the type's own check and survive parse->serialize unchanged up to order; every text/attribute position is probed with two benign tokens - free-text positions must round-trip 4 hostile values verbatim with an unchanged element skeleton, typed positions must at least give stable, self-admitted output",
   note="seeds come from the repository's tests plus hand seeds; field combinations are those of the seeds (DOM-level presence mutations are part of C02); setter-built objects only for QXmppMessage (C17 check)",
   tech="runtime monitoring: self-consistency oracle (round trip, canonical comparison, skeleton invariant) over generated documents, under ASan/UBSan")
CHECKS["C02"] = dict(engine="codec", cat="exploration",
   text="seed documents mutated at DOM level by 16 operators (delete/duplicate/reorder/move/re-namespace/strip/empty/hostile numbers, enums, strings/deep nesting/huge text/cross-breeding/rename/unknown children/many siblings); every one of the 125 registered parsers is applied to every element its own type check admits (untyped parsers to all) under ASan+UBSan with a per-application watchdog and RSS limit; output must be well-formed and ser(parse(ser(parse(d)))) == ser(parse(d))",
   note="nesting depth <= 300 quick / 2000 thorough, text <= 64 KiB quick / 1 MiB thorough; uninitialised reads are out of ASan/UBSan's reach; the connected-client half is exercised by the wire engine checks",
   tech="runtime monitoring: sanitizers (ASan/UBSan) + watchdog + fixpoint oracle over structure-aware mutation fuzzing")
CHECKS["C17"] = dict(engine="msg", cat="exploration",
   text="messages assembled from all 51 known extension element kinds of the repository's fixtures (every single kind, every pair, random subsets up to all), each kind classified public/sensitive/both from the statement; serialized with toXml(ScePublic) and serializeExtensions(SceSensitive) as the client and the OMEMO manager do; oracle: no sensitive element kind or value in the public bytes, public+sensitive is exactly the element multiset of the combined form, parse(ScePublic)+parseExtensions(SceSensitive) recovers the message and leaves no known extension as unknown",
   note="classification is our reading of the statement; unknown application-defined extensions are not judged; objects are built by combined-mode parsing of fixtures",
   tech="runtime monitoring: marker/partition/recovery oracle over generated messages, under ASan/UBSan")
CHECKS["C20"] = dict(engine="caps", cat="exploration",
   text="random info sets (identities incl. ones differing in one component, repeated features, FORM_TYPE forms with multi-valued fields; ASCII/Latin-1/CJK/high-BMP/astral alphabets) hashed by the real verificationString() in 5 permutations each (setters and XML parse) plus one single-element perturbation; compared with an independent Python XEP-0115 5.1 implementation (octet collation)",
   note="Python hashlib and our reading of XEP-0115; the advertised-vs-answered half (presence <c ver> vs disco#info reply) is checked through the wire engine",
   tech="runtime monitoring: differential oracle (independent Python XEP-0115) + metamorphic relations (permutation, duplication, perturbation), under ASan/UBSan")
CHECKS["C18"] = dict(engine="atm", cat="exploration",
   text="histories over {manual authenticate/distrust, trust message(sender account, sender key, own-device / own-other-device / contact, 1-2 owners, trusted/distrusted subsets, foreign usage)} on a universe of 3 accounts and 10 keys under both security policies: exhaustive words of length <= 2 (quick) / 3 (thorough) over a 26-step alphabet plus 20000 / 10^6 random histories of length <= 25; after every step the full trust state is read back and judged by frame conditions F1-F5 (who may cause which change, held-back decisions fire exactly on authentication and are discarded on distrust)",
   note="frame conditions are our reading of the statement/XEP-0450; memory storage back end only",
   tech="runtime monitoring: offline checker of frame conditions over recorded state snapshots (history + reachability of justification chains), under ASan/UBSan")
CHECKS["C03"] = dict(engine="split", cat="exploration",
   text="40 streams (3 headers, 14 stanza kinds with 2/3/4-byte UTF-8, entities, quotes, whitespace keep-alives, with/without stream close) delivered over a real loopback TCP connection to the real XmppSocket: every 2-way split of every stream (exhaustive), one byte at a time, and 2000 (quick) / 200000 (thorough) random k-way splits biased to multi-byte characters, entities and tag interiors; the event sequence must equal that of the one-shot delivery",
   note="loopback TCP, one flush per chunk with the receiver drained in between (observed read sizes are recorded); Qt's socket and XML layers are trusted",
   tech="runtime monitoring: metamorphic oracle (chunking independence) with explicitly driven read boundaries, under ASan/UBSan")
CHECKS["C08"] = dict(engine="wire", cat="exploration",
   text="a fake server injects IQs into a real connected QXmppClient: every type (get/set/result/error/absent/garbage/empty) x every IQ payload kind of the fixtures (~95, plus unknown, none, several children) x 4 (quick) / 6 (thorough) senders x 3 extension sets (none, defaults, all bundled managers), plus an id duplicating an outstanding request and an absent id; replies are counted per id on the server transcript after an XEP-0198 fence, an idle settle and a second fence: exactly one result/error addressed back for get/set, none for result/error",
   note="loopback TCP, both ends in one process; a reply later than 30 ms of silence after the fence would be missed; IQs with an invalid type make the client close the stream, which is allowed",
   tech="runtime monitoring: exactly-once counting oracle over the recorded server-side transcript of a real client session, under ASan/UBSan")
CHECKS["C11"] = dict(engine="wire", cat="exploration",
   text="carbon wrappers injected by a fake server into a real connected client (QXmppCarbonManagerV2 and the V1 manager): 19 outer sender classes (own bare accepted; own full JIDs, look-alike/sub/appended domains, prefix/suffix, resource tricks, contacts, server domain, leading blank rejected; case variants/empty/absent not judged) x sent/received x random inner messages from the fixture extension pool x 8 wrapper shapes (extra payloads, wrong namespaces, forwarded without message, nested, two wrappers); every message object the application sees is recorded and tied to its wrapper by unique ids/bodies; accepted ones must equal the library's own parse of the inner element and carry the forwarded flag",
   note="loopback TCP; messages presented later than the settle window after the XEP-0198 fence would be missed",
   tech="runtime monitoring: marker-tracking oracle over all application-visible message events of a real client session, under ASan/UBSan")
CHECKS["C12"] = dict(engine="wire", cat="exploration",
   text="histories over {full roster, push add/update/remove/multi from 10 sender classes, presence of 5 types from 3 resources of 7 JIDs, connection loss followed by a resumed / new-after-failed-resume / sm-less session}: exhaustive words of length <= 2 (quick) / 3 (thorough) over a 15-letter alphabet plus random histories up to length 60; after every step (XEP-0198 or ping fence) getRosterBareJids/getRosterEntry/getResources are compared with a two-map reference model and result IQs per push are counted on the server transcript",
   note="pushes from other own resources, the bare domain and case variants follow the observed acknowledgement; the view while disconnected is not judged",
   tech="runtime monitoring: executable reference model stepped alongside a real client session (state comparison at fenced quiescent points), under ASan/UBSan")
CHECKS["C07"] = dict(engine="wire", cat="exploration",
   text="histories over {request(6 addressee classes, optionally re-entering the client from the continuation), reply(result/error/malformed/request-with-same-id, outstanding or unknown id, 10 sender classes, once/twice), resumable connection loss, disconnect, reconnect (resumed/new)} with up to 4 requests outstanding: exhaustive words of length <= 3 (quick) / 4 (thorough) over a 16-letter alphabet plus 20000 / 10^6 random words up to length 30, each closed by a non-resumable end; each task's continuation count, value and completion segment are compared with a request model (accept = addressee or absent from; case variants and own domain not judged) under ASan/UBSan",
   note="a stanza without from counts as coming from the user's own server; requests issued while disconnected are not modelled; the bundled managers' request APIs are only covered through raw IQs",
   tech="runtime monitoring: exactly-once counters + executable request model over recorded call/return histories of a real client session, sanitizers for re-entrancy")
CHECKS["C09"] = dict(engine="wire", cat="exploration",
   text="histories over {send message/presence with unique markers, server <a h/> (exact, minus one, stale, zero, beyond), server <r/>, deliver message/presence/iq/nonza/two stanzas, connection loss, resume accepted with h all/some/none/stale, resume refused then new session with or without stream management}: two sends followed by every word of length <= 3 (quick) / 4 (thorough) over a 13-letter alphabet, plus random words up to length 40; the fake server keeps its own XEP-0198 counters and decides which acks it delivers; oracle: 'acknowledged' only for positions covered by a delivered ack, no report twice, retransmissions on a resumed/new session are exactly the uncovered stanzas in original order before newer ones, covered ones never come again, every <a h/> and <resume h/> equals the number of stanzas delivered on that session",
   note="after an ack that is inconsistent by construction (beyond what was sent / below what was acked) retransmission expectations of that history are not judged; sending while disconnected is not modelled",
   tech="runtime monitoring: offline checker over the recorded wire transcript with unique markers against a server-side XEP-0198 reference (ordering, conservation, exactly-once), under ASan/UBSan")
CHECKS["C10"] = dict(engine="wire", cat="fault_enumeration",
   text="9 protocol-conforming server scripts (SASL+bind, with session offered, with stream management, with resumable stream management, SASL2+bind2 with/without inline stream management, XEP-0078, see-other-host before and after authentication); the fake server drops the TCP connection after every protocol event k (every element sent or received, and once established with a request outstanding), for one and for every pair (k1,k2) of consecutive attempts (thorough: all triples for the two longest scripts), followed by a clean attempt; after every cut state()/isConnected()/isAuthenticated() are read, 'connected' emissions are counted per attempt, outstanding requests must complete exactly once, the clean attempt must answer every step of the script, must not ask to resume anything that was never resumable, and must end connected",
   note="the fault is a TCP reset by the server on loopback (no half-open connections, no timeouts); a refused resumption is always followed by a fresh bind",
   tech="runtime monitoring: exhaustive fault injection at every protocol event with state assertions at quiescence and a transcript grammar for the next attempt, under ASan/UBSan")
CHECKS["C04"] = dict(engine="wire", cat="exploration",
   text="server scripts = words over a 33-letter alphabet (stream headers with/without version and id, 8 feature sets with starttls optional/required/absent + SASL, SASL2+FAST, legacy auth, bind, sm; <proceed/>, TLS <failure/>, legacy-auth field offers, IQ gets/results, <r/>, unsolicited <success/>/<challenge/>, message, presence, stream errors, see-other-host with/without close): exhaustive to length 3 (quick) / 4 (thorough) over a 16-letter core x 3-7 client configurations with TLSRequired, random words to length 10, scripts that authenticate over real TLS and are then redirected to a plain endpoint, and positive-control scripts where the fake server really completes STARTTLS (committed test certificate); the server's plaintext transcript is classified element by element (stanzas, SASL/SASL2 elements, bind, legacy auth) and searched for the configured secrets in their encodings; when the last server action makes encryption impossible the client must end disconnected",
   note="TLS itself (OpenSSL through Qt) is trusted; nonzas other than SASL elements sent in clear are recorded, not judged; 'gives up' is judged only when the deciding event is the server's last action on a well-formed stream",
   tech="runtime monitoring: transcript classifier + secret search over the bytes a hostile scripted server receives before TLS, with a real-TLS positive control, under ASan/UBSan")
CHECKS["C19"] = dict(engine="wire", cat="fault_enumeration",
   text="in-band file transfers between two real clients with QXmppTransferManager relayed by the fake server: sizes {0,1,b-1,b,b+1,2b,3b+5} x block sizes {1,7,4096} x contents {zeros, random, all byte values}, with and without announced hash, transfers of more than 65536 blocks (16-bit counter wrap), and every single fault (drop, duplicate, swap with next, bit flip, early close, wrong session id, wrong sender, wrong sequence number) at every block position of short transfers (thorough: more sizes and 3000 random faults); oracle: receiver reports success only with byte-identical content, fault-free transfers succeed on both sides",
   note="block sizes other than 4096 use the QXMPP_VERIF_HOOKS setter; SOCKS5 bytestreams are not exercised; a fault that leaves the received bytes intact (e.g. a rejected duplicate) may still end in success",
   tech="runtime monitoring: single-fault injection in a relaying server with byte comparison of the receiver's device against the sent content, under ASan/UBSan")
CHECKS["C16"] = dict(engine="server", cat="exploration",
   text="raw TCP client scripts against the real QXmppServer while a properly authenticated victim is online: every word of length <= 4 (quick) / 5 (thorough) over an 8-letter alphabet {open stream, PLAIN right/wrong, bind, message/presence/iq with from absent or victim's}, every pair over a 27-letter alphabet after a stream open (wrong domain, malformed/prefix/authzid credentials, DIGEST-MD5 right/wrong, ANONYMOUS, unknown mechanism, SASL2, abort, response without auth, session, from third/own/empty), random words up to length 12; unique markers tie each delivery at the victim to its send event and the sender's authentication state; oracle: nothing from an unauthenticated connection is delivered or answered, clientConnected only for authenticated users, delivered stanzas carry the authenticated sender's JID, SASL success only for credentials the checker approves; the server process runs under ASan/UBSan",
   note="no server extensions are loaded (routing by destination only); server-to-server paths are not exercised; attacker-side replies are awaited with short timeouts, deliveries are fenced logically on the victim's connection",
   tech="runtime monitoring: marker-tracking oracle over the transcripts of raw scripted clients against the real server, sanitizers on the server process")
CHECKS["C15"] = dict(engine="ice", cat="exploration",
   text="forged STUN datagrams (Binding request / success / error / indication x integrity {absent, wrong key, the other side's key, valid value over altered content, cut off at the integrity value, all-zero} x username {right, wrong, reversed, none} x USE-CANDIDATE x role attribute x fingerprint) sent from an attacker socket to a listening QXmppIceConnection before, during and after an honest negotiation, or with no honest peer; the attacker answers any check it is sent without integrity; oracle: the attacker receives no success response, no request and no application data, the component never connects or selects a pair because of such traffic, data sent afterwards still reaches the honest peer; positive control: a sender that knows the credentials is answered. Honest negotiations through a relay that drops every subset of the first 4 first-transmissions per direction, both role assignments, both candidate orders, then unique datagrams of 1..1400 bytes both ways must arrive exactly once unchanged, connected() exactly once; candidate priorities are checked against RFC 5245 4.1.2.1",
   note="loopback only, host candidates only (no STUN/TURN server in the sandbox); STUN error responses to the attacker are recorded, not judged; wall-clock watchdog firing is inconclusive",
   tech="runtime monitoring: packet-forging attacker with receive-log oracle + relay with first-transmission loss injection and datagram conservation check, under ASan/UBSan")
REASON_TODO = "check not built yet in this session (planned, see DESIGN.md §2)"

def main():
    hooks = json.load(open(os.path.join(V, "hooks.json"))) if os.path.exists(os.path.join(V, "hooks.json")) else {"source_commits": []}
    m = {"version": 1, "setup_cmd": "./run setup",
         "hooks": {"guard": "QXMPP_VERIF_HOOKS",
                   "enable": "checks build /repo out of tree (static, ASan+UBSan) with -DQXMPP_VERIF_HOOKS in CMAKE_CXX_FLAGS (lib/vf.py FLAVOURS)",
                   "baseline_off_cmd": "cmake --build /repo/_build -j16 && ctest --test-dir /repo/_build -j1 --timeout 900",
                   "source_commits": hooks["source_commits"], "add_only": True},
         "engines": [], "checks": [], "not_applicable": [],
         "notes": "runtime monitoring / sanitizers only; every check: ./run <id> quick|thorough, exit 0 held / 1 violation / 2 harness failure or inconclusive; see DESIGN.md"}
    used = {}
    for p in props:
        c = CHECKS.get(p["id"])
        if not c:
            m["not_applicable"].append({"property_id": p["id"], "reason": REASON_TODO})
            continue
        for e in c["engine"].split("+"):
            used.setdefault(e, []).append(p["id"])
        m["checks"].append({"property_id": p["id"], "quick_cmd": "./run %s quick" % p["id"], "thorough_cmd": "./run %s thorough" % p["id"],
                            "evidence_file": "evidence/%s.json" % p["id"], "replay_cmd_template": "./run %s quick --replay {path}" % p["id"],
                            "engine": c["engine"], "level_claimed": {"category": c["cat"], "text": c["text"], "design_ref": "DESIGN.md §2 " + p["id"]},
                            "level_note": c["note"], "technique": c["tech"]})
    for e, ids in used.items():
        m["engines"].append({"name": e, "path": ENGINES[e][0], "serves_properties": ids, "kind_free_text": ENGINES[e][1]})
    json.dump(m, open(os.path.join(V, "MANIFEST.json"), "w"), indent=1)
    print("manifest: %d checks, %d not_applicable" % (len(m["checks"]), len(m["not_applicable"])))

main()
