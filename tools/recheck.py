#!/usr/bin/env python3
"""tools/recheck.py <Cxx> <suffix>: re-runs the property's quick check against the still existing scratch worktree /tmp/wt-<Cxx><suffix> and rewrites seeded/<Cxx>-<suffix>/result.json"""
import json, os, re, subprocess, sys
V = os.path.dirname(os.path.dirname(os.path.abspath(__file__)))
pid, suf = sys.argv[1], sys.argv[2]
wt = "/tmp/wt-%s%s" % (pid, suf)
sd = os.path.join(V, "seeded", "%s-%s" % (pid, suf))
env = dict(os.environ, VERIF_REPO=wt, VERIF_EVIDENCE_DIR="/tmp/round2_evidence")
p = subprocess.run(["./run", pid, "quick"], cwd=V, capture_output=True, text=True, env=env)
sigs = sorted(set(re.findall(r"^  signature: (.*)$", p.stdout, re.M)))
old = json.load(open(os.path.join(sd, "result.json"))) if os.path.exists(os.path.join(sd, "result.json")) else {}
res = {"check": pid, "tier": "quick", "exit": p.returncode, "violation_lines": len(re.findall(r"^VIOLATION ", p.stdout, re.M)), "signatures": sigs[:12], "ran_against": "the agent's scratch worktree (VERIF_REPO), patch applied"}
if old.get("exit") == 0 and p.returncode == 1:
    res["first_attempt"] = "missed (exit 0) - the check was strengthened, see DESIGN.md section 8"
elif old.get("first_attempt"):
    res["first_attempt"] = old["first_attempt"]
json.dump(res, open(os.path.join(sd, "result.json"), "w"), indent=1)
print(pid, suf, res["exit"], sigs[:3])
