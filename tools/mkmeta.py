#!/usr/bin/env python3
"""writes seeded/<dir>/meta.json from the agent's NOTES.md, seeded/CONFIRMED.txt and result.json; prints the table for DESIGN.md §8"""
import json, os, re
V = os.path.dirname(os.path.dirname(os.path.abspath(__file__)))
conf = {}
for l in open(os.path.join(V, "seeded", "CONFIRMED.txt")):
    if l.startswith("C"):
        conf[l.split()[0]] = l.strip()
HAND = {
 "C06-c-regress-processing-after-close": dict(change="reverse of fix cc7063f: XmppSocket::processData() goes on dispatching the elements of a read after a handler has closed the stream",
     needs="a server that sends <success/> without (or with a wrong) server signature and the following stream features in the same packet (SASL2 has no stream restart in between)",
     also=[]),
 "C02-c-regress-uninit-enum": dict(change="reverse of fix 0499544: QXmppDiscoveryIqPrivate::queryType is left uninitialised by the default constructor again",
     needs="a discovery IQ that is built with the default constructor and serialized without setQueryType(); the stale value must differ from InfoQuery to change behaviour, and only a valgrind/UBSan run sees the read itself",
     also=["C01"]),
 "C02-b-regress-mix-event": dict(change="reverse of fix e1b86d8: QXmppMixManager::handlePubSubEvent takes constFirst() of the item list of a configuration/information event again",
     needs="an event notification for a MIX config/info node that carries <items node=.../> with no <item/>, and an application that reads the object handed to it by the signal",
     also=[]),
 "C16-b-regress-ns-escape": dict(change="reverse of fix ae28674: namespace URIs taken from parsed data are written with QXmlStreamWriter::writeDefaultNamespace() verbatim again",
     needs="a routed or re-serialized stanza whose child carries a namespace URI containing an (escaped) quote followed by markup; ordinary namespaces never contain one",
     also=["C02", "C01"]),
}

def section(txt, title):
    m = re.search(r"^## %s[^\n]*\n(.*?)(?=^## |\Z)" % title, txt, re.S | re.M)
    return " ".join(m.group(1).split())[:900] if m else ""

rows = []
for d in sorted(os.listdir(os.path.join(V, "seeded"))):
    sd = os.path.join(V, "seeded", d)
    if not os.path.isdir(sd):
        continue
    pid = d.split("-")[0]
    meta = {"property": pid, "origin": "sub-agent given only the property text and a scratch worktree" if d.endswith("-a") else
            "sub-agent (round 2) given the property text, a scratch worktree and a one-paragraph description of the first seed to steer it elsewhere" if d.endswith("-b") else
            "sub-agent (round 3, prompt from tools/mkprompt.py) given the property text with quantifier and anchors, a scratch worktree and one paragraph per earlier seed of the property to steer it elsewhere" if d.endswith("-c") else
            "sub-agent (round 4, prompt from tools/mkprompt.py with a focus hint towards parts of the property the earlier seeds had not touched) given the property text with quantifier and anchors, a scratch worktree and one paragraph per earlier seed" if d.endswith("-d") else "reverse patch of a fix: commit"}
    notes = os.path.join(sd, "NOTES.md")
    if os.path.exists(notes):
        t = open(notes).read()
        meta["change"] = section(t, "The change") or " ".join(re.sub(r"^#[^\n]*\n", "", t.strip()).split("\n\n")[0].split())[:900]
        meta["needs_to_manifest"] = section(t, "What it needs to manifest") or section(t, "What it needs")
    if d in HAND:
        meta["change"] = HAND[d]["change"]; meta["needs_to_manifest"] = HAND[d]["needs"]; meta["also_caught_by"] = HAND[d]["also"]
    meta["patch"] = "patch.rebased.diff (the agent's patch.diff no longer applies after later fix: commits; same change, same lines)" if os.path.exists(os.path.join(sd, "patch.rebased.diff")) else "patch.diff"
    meta["confirmed_in_scratch_worktree"] = conf.get(d, "reverse of a commit whose forward direction passed the suite; suite re-run with the reverse applied: see result")
    meta["how_to_run"] = "git -C /repo apply seeded/%s/%s && ./run %s quick; git -C /repo checkout -- ." % (d, meta["patch"].split()[0], pid)
    rj = os.path.join(sd, "result.json")
    if os.path.exists(rj):
        meta["result"] = json.load(open(rj))
    json.dump(meta, open(os.path.join(sd, "meta.json"), "w"), indent=1)
    r = meta.get("result", {})
    first = re.sub(r"```.*", "", meta.get("change", "")).split(". ")[0][:140]
    rows.append("| %s | %s | %s quick: exit %s, %s%s | `%s` |" % (d, first.replace("|", "/"), r.get("check", pid), r.get("exit", "?"), "%d violation lines" % r.get("violation_lines", 0),
                                                              " (missed at first)" if r.get("first_attempt") else "", "`, `".join(s[:90] for s in r.get("signatures", [])[:2])))
print("| seed | change (first sentence of the agent's notes) | result | signatures |\n|---|---|---|---|\n" + "\n".join(rows))
