"""C18 — automatic trust management: only an authenticated key's holder can move trust, within scope (engine: atm)

The real QXmppAtmManager + memory storage are driven through public entry points; after every step the complete state
(levels, postponed decisions) is dumped.  Verdict = frame conditions over consecutive snapshots; a reference model is
stepped alongside and compared on unambiguous histories only.
"""
import collections, copy, itertools, json, os, sys
from concurrent.futures import ProcessPoolExecutor
import vf

UNDECIDED, AUTO_DIS, MAN_DIS, AUTO_TRUST, MAN_TRUST, AUTH = 1, 2, 4, 8, 16, 32
OWN, OWNRES = "alice@example.org", "dev1"
BOB, CAROL = "bob@example.org", "carol@example.com"
KEYS = {OWN: ["a1", "a2"], BOB: ["b1", "b2", "b3"], CAROL: ["c1", "c2"]}
EXTRA = {OWN: "za", BOB: "zb", CAROL: "zc"}   # key ids not in the store at the start (one per account: key ids are unique identities)
ALLKEYS = [k for o in KEYS for k in KEYS[o]] + list(EXTRA.values())
OWNER_OF = {k: o for o in KEYS for k in KEYS[o]}
OWNER_OF.update({v: k for k, v in EXTRA.items()})
ATM = "urn:xmpp:atm:1"


def bare(j):
    return j.split("/")[0]


# ---------------------------------------------------------------- frame conditions

def decisions_of(step):
    """in-scope decisions a message carries: list of (owner, key, trust)"""
    out = []
    sender = bare(step["from"])
    for o in step["owners"]:
        if sender == OWN or sender == o["jid"]:
            out += [(o["jid"], k, True) for k in o["trusted"]] + [(o["jid"], k, False) for k in o["distrusted"]]
    return out


def check_step(step, pre, post, policy, viol, stats, hist):
    lv0, lv1 = pre["levels"], post["levels"]
    pp0 = {s: set((o, k, t) for o, k, t in v) for s, v in pre["postponed"].items()}
    pp1 = {s: set((o, k, t) for o, k, t in v) for s, v in post["postponed"].items()}
    changed = {k: (lv0.get(k), lv1.get(k)) for k in set(lv0) | set(lv1) if lv0.get(k) != lv1.get(k)}
    w = {"history": hist, "step": step, "pre": pre, "post": post, "policy": policy}

    def level0(owner, key):
        return lv0.get(owner + "|" + key, UNDECIDED)

    trigger = []        # decisions that may be applied immediately
    if step["op"] == "manual":
        trigger = [(step["owner"], k, True) for k in step["auth"]] + [(step["owner"], k, False) for k in step["distrust"]]
        kind = "manual"
    else:
        sender = bare(step["from"])
        skey = step.get("senderKey", "")
        if step.get("usage", ATM) != ATM:
            kind = "foreign-usage"
        elif step["from"] == OWN + "/" + OWNRES:
            kind = "own-device"
        elif level0(sender, skey) != AUTH:
            kind = "unauthenticated-sender"
        else:
            kind = "authenticated-sender"
            trigger = decisions_of(step)
    stats["kind:" + kind] += 1
    # F1 / F0: nothing at all may change
    if kind in ("own-device", "foreign-usage"):
        if changed or pp0 != pp1:
            viol.append(("F1 %s changes-state" % kind, "a trust message %s changed trust levels or postponed decisions" % ("from the receiving device itself" if kind == "own-device" else "with a foreign usage"), w))
        return
    # F2: unauthenticated sender: no level changes; in-scope decisions held back, out-of-scope ones nowhere
    if kind == "unauthenticated-sender":
        if changed:
            viol.append(("F2 unauthenticated-sender-changes-level", "a trust message whose sender key is not authenticated changed a trust level immediately: %s" % sorted(changed), w))
        skey = step.get("senderKey", "")
        want = set(decisions_of(step))
        have = pp1.get(skey, set())
        # the latest decision per (owner,key) of this sender wins
        missing = [d for d in want if d not in have and (d[0], d[1], not d[2]) not in want]
        if missing and skey:
            viol.append(("F2 decision-not-held-back", "an in-scope decision of an unauthenticated sender is neither applied nor held back", w))
        allowed_new = want
        for s in set(pp0) | set(pp1):
            new = pp1.get(s, set()) - pp0.get(s, set())
            if s != skey and new:
                viol.append(("F2 postponed-under-foreign-sender", "decisions were stored under a sender key other than the message's", w))
            elif s == skey and not new <= allowed_new:
                viol.append(("F2 out-of-scope-decision-stored", "an out-of-scope decision (sender neither own account nor key owner) was held back for later", w))
        stats["postponed_added"] += sum(len(pp1.get(s, set()) - pp0.get(s, set())) for s in pp1)
        return
    # F3: every change to Authenticated / ManuallyDistrusted is justified by a chain
    justified = set(trigger)
    frontier = [k for (o, k, t) in trigger if t]
    fired_senders = set()
    while frontier:
        s = frontier.pop()
        if s in fired_senders:
            continue
        fired_senders.add(s)
        for (o, k, t) in pp0.get(s, set()):
            if (o, k, t) not in justified:
                justified.add((o, k, t))
            if t:
                frontier.append(k)
    auth_owners = set(o for (o, k, t) in justified if t)
    for name, (a, b) in changed.items():
        o, k = name.split("|")
        if b == AUTH and (o, k, True) in justified:
            stats["applied"] += 1
            continue
        if b == MAN_DIS and (o, k, False) in justified:
            stats["applied"] += 1
            continue
        if a == AUTO_TRUST and b == AUTO_DIS and policy == "toakafa" and o in auth_owners:
            stats["policy_distrust"] += 1
            continue
        what = "level of %s changed %s -> %s without an authenticated in-scope decision explaining it" % (name, a, b)
        sig = "F3 unexplained-change to=%s %s" % (b, kind)
        if kind == "authenticated-sender" and ((o, k, True) in set((x["jid"], kk, True) for x in step["owners"] for kk in x["trusted"]) or (o, k, False) in set((x["jid"], kk, False) for x in step["owners"] for kk in x["distrusted"])):
            sig = "F3 out-of-scope-decision-applied"
            what = "a decision about %s from a sender that is neither one of the user's own devices nor the key owner was applied" % name
        viol.append((sig, what, w))
    # F4: a sender key authenticated in this step has fired and released its held-back decisions
    for name, (a, b) in changed.items():
        o, k = name.split("|")
        if b == AUTH:
            if pp1.get(k):
                viol.append(("F4 held-back-after-authentication", "decisions held back for sender key %s are still held back after that key became authenticated" % k, w))
            for (po, pk, pt) in pp0.get(k, set()):
                got = lv1.get(po + "|" + pk)
                if got != (AUTH if pt else MAN_DIS) and (po, pk, not pt) not in justified:
                    viol.append(("F4 held-back-decision-not-applied", "sender key %s became authenticated but its held-back decision about %s|%s did not take effect" % (k, po, pk), w))
                else:
                    stats["postponed_fired"] += 1
        if b == MAN_DIS:
            # F5: decisions of a distrusted sender key are discarded
            if pp0.get(k):
                stats["postponed_discarded"] += 1
            if pp1.get(k):
                viol.append(("F5 held-back-after-distrust", "decisions held back for sender key %s survive the distrust of that key" % k, w))
    # F5 (continued): a distrust decision that is applied in this step discards what that key's holder had sent before - also when the key's
    # level does not change because it was distrusted already
    for (o, k, t) in trigger:
        if not t and pp1.get(k) and lv1.get(o + "|" + k) == MAN_DIS:
            if pp0.get(k):
                viol.append(("F5 held-back-after-repeated-distrust", "decisions held back for sender key %s survive a (repeated) distrust of that key" % k, w))
    # nothing may be added to the postponed store in such a step except by an authenticated-sender message (none: they apply immediately)
    for s in pp1:
        new = pp1[s] - pp0.get(s, set())
        if new:
            viol.append(("F3 decision-held-back-from-authenticated-sender", "a step with an authenticated trigger stored new held-back decisions", w))
    # invariant: no held-back decisions for a sender key that is authenticated
    for s, v in pp1.items():
        if v and s in OWNER_OF and lv1.get(OWNER_OF[s] + "|" + s) == AUTH:
            viol.append(("I1 held-back-for-authenticated-sender", "held-back decisions exist for sender key %s although it is authenticated" % s, w))


# ---------------------------------------------------------------- generation

def gen_msg(r, hostile=True):
    frm = r.choice([OWN + "/" + OWNRES, OWN + "/dev2", OWN + "/dev2", BOB + "/r", BOB + "/r", CAROL + "/x"])
    acct = bare(frm)
    skey = r.choice(KEYS[acct] + ([EXTRA[acct]] if r.random() < 0.1 else []))
    owners = []
    for oj in r.sample([OWN, BOB, CAROL], r.choice([1, 1, 2])):
        pool = KEYS[oj] + ([EXTRA[oj]] if r.random() < 0.15 else [])
        ks = r.sample(pool, r.randrange(1, len(pool) + 1))
        cut = r.randrange(0, len(ks) + 1)
        owners.append({"jid": oj, "trusted": ks[:cut], "distrusted": ks[cut:]})
    st = {"op": "msg", "from": frm, "senderKey": skey, "owners": owners}
    if r.random() < 0.03:
        st["usage"] = "urn:example:other"
    return st


def gen_manual(r):
    oj = r.choice([OWN, BOB, CAROL])
    ks = r.sample(KEYS[oj], r.randrange(1, len(KEYS[oj]) + 1))
    cut = r.randrange(0, len(ks) + 1)
    if r.random() < 0.6:
        cut = len(ks)
    return {"op": "manual", "owner": oj, "auth": ks[:cut], "distrust": ks[cut:]}


def gen_initial(r):
    init = []
    for o in KEYS:
        for k in KEYS[o]:
            if r.random() < 0.85:
                init.append([o, k, r.choice([UNDECIDED, AUTO_DIS, AUTO_DIS, AUTO_TRUST, AUTO_TRUST, MAN_TRUST, MAN_DIS, AUTH])])
    return init


def small_alphabet():
    """reduced step alphabet for exhaustive depth-3 enumeration"""
    A = []
    for o, ks in ((OWN, ["a2"]), (BOB, ["b1"]), (CAROL, ["c1"])):
        A.append({"op": "manual", "owner": o, "auth": ks, "distrust": []})
        A.append({"op": "manual", "owner": o, "auth": [], "distrust": ks})
    for frm, sk in ((OWN + "/dev2", "a2"), (BOB + "/r", "b1"), (CAROL + "/x", "c1"), (OWN + "/" + OWNRES, "a1")):
        for owner, tk, dk in ((BOB, ["b2"], []), (BOB, ["b1"], ["b3"]), (CAROL, ["c1", "c2"], []), (OWN, ["a2"], []), (CAROL, [], ["c1"])):
            A.append({"op": "msg", "from": frm, "senderKey": sk, "owners": [{"jid": owner, "trusted": tk, "distrusted": dk}]})
    return A


def holdback_chains():
    """5-step chains: a sender key S is distrusted, S's holder sends decisions (held back), S is distrusted again or authenticated, by hand or
    by a message of an authenticated own device, and authenticated at the end: only what survived may fire"""
    D = {"op": "manual", "owner": OWN, "auth": ["a2"], "distrust": []}
    out = []
    for (sj, sk, other, third) in ((BOB + "/r", "b1", "b2", "b3"), (CAROL + "/x", "c1", "c2", "c2")):
        so = bare(sj)
        man_dis = {"op": "manual", "owner": so, "auth": [], "distrust": [sk]}
        man_auth = {"op": "manual", "owner": so, "auth": [sk], "distrust": []}
        msg_dis = {"op": "msg", "from": OWN + "/dev2", "senderKey": "a2", "owners": [{"jid": so, "trusted": [], "distrusted": [sk]}]}
        msg_auth = {"op": "msg", "from": OWN + "/dev2", "senderKey": "a2", "owners": [{"jid": so, "trusted": [sk], "distrusted": []}]}
        for first in ([], [man_dis], [msg_dis]):
            for content in ({"trusted": [other], "distrusted": []}, {"trusted": [], "distrusted": [other]}, {"trusted": [other], "distrusted": [third]} if third != other else {"trusted": [other], "distrusted": []}):
                held = {"op": "msg", "from": sj, "senderKey": sk, "owners": [dict(content, jid=so)]}
                for again in ([], [man_dis], [msg_dis], [man_dis, msg_dis]):
                    for end in ([man_auth], [msg_auth], []):
                        out.append([D] + first + [held] + again + end)
    return out


def worker(args):
    wid, nrandom, exhaustive_slice = args
    binary = vf.build_harness("atm")
    r = vf.rng("c18", wid)
    hists = []
    base_init = [[OWN, "a1", AUTH], [OWN, "a2", AUTO_DIS], [BOB, "b1", AUTO_TRUST], [BOB, "b2", AUTO_TRUST], [BOB, "b3", AUTO_DIS], [CAROL, "c1", AUTO_DIS], [CAROL, "c2", AUTO_TRUST]]
    for steps, policy in exhaustive_slice:
        hists.append({"policy": policy, "initial": base_init, "steps": steps})
    for _ in range(nrandom):
        n = r.choice([2, 4, 8, 15, 25])
        steps = [gen_manual(r) if r.random() < 0.3 else gen_msg(r) for _ in range(n)]
        hists.append({"policy": r.choice(["toakafa", "none"]), "initial": gen_initial(r), "steps": steps})
    reqs = []
    for n, h in enumerate(hists):
        reqs.append(dict(h, n=n, own=OWN, resource=OWNRES, owners=list(KEYS), keys=ALLKEYS + [""]))
    resp, crashes = vf.drive(binary, reqs)
    viol, stats = [], collections.Counter()
    for rq, info in crashes:
        viol.append(("crash " + vf.crash_sig(info), "sanitizer report / abnormal exit in the trust manager", {"request": rq, "stderr": info["stderr"][-3000:]}))
    for n, h in enumerate(hists):
        o = resp.get(n)
        if not o:
            continue
        stats["histories"] += 1
        snaps = o["snapshots"]
        for i, st in enumerate(h["steps"]):
            stats["steps"] += 1
            check_step(st, snaps[i], snaps[i + 1], h["policy"], viol, stats, {"policy": h["policy"], "initial": h["initial"], "steps": h["steps"][:i + 1]})
    return viol, dict(stats), hists[-1] if hists else None


def main(tier, replay=None):
    V = vf.Verdict("C18", tier)
    vf.build_harness("atm")
    W = vf.NPROC
    A = small_alphabet()
    depth = 2 if tier == "quick" else 3
    ex = []
    for d in range(1, depth + 1):
        for combo in itertools.product(A, repeat=d):
            for policy in ("toakafa", "none"):
                ex.append((list(combo), policy))
    for ch in holdback_chains():
        for policy in ("toakafa", "none"):
            ex.append((ch, policy))
    nrandom = (20000 if tier == "quick" else 1000000) // W
    slices = [ex[w::W] for w in range(W)]
    with ProcessPoolExecutor(max_workers=W) as pool:
        res = list(pool.map(worker, [(w, nrandom, slices[w]) for w in range(W)]))
    stats, sample = collections.Counter(), None
    for viol, st, smp in res:
        for sig, what, w in viol:
            V.violation(sig, what, w)
        stats.update(st)
        sample = smp
    cov = {"evaluations": stats["steps"], "distinct_nontrivial": stats["applied"] + stats["postponed_added"] + stats["postponed_fired"] + stats["postponed_discarded"],
           "rule": "universe: own account + 2 contacts, 7 keys + 3 initially unknown keys, both security policies; exhaustive words of length <= %d over a %d-step alphabet x 2 policies (%d histories) plus random histories of length <= 25 "
                   "with random initial levels; 216 hold-back chains (own device authenticated; a contact key distrusted or not; its holder's decisions held back; the key distrusted again / authenticated by hand or by the own device's message; authenticated at the end) x 2 policies; every step is judged by frame conditions F1-F5 over the full state before/after; distinct_nontrivial = level changes explained + decisions held back + fired + discarded" % (depth, len(A), len(ex)),
           "exhaustive_small_depth": depth, "observed": dict(stats), "samples": [sample]}
    floors = {"applied": stats["applied"] > 0, "held_back": stats["postponed_added"] > 0, "fired": stats["postponed_fired"] > 0, "discarded": stats["postponed_discarded"] > 0,
              "unauth_sender": stats["kind:unauthenticated-sender"] > 0, "own_device": stats["kind:own-device"] > 0}
    V.finish(cov, "exploration", ["frame conditions are our reading of the statement / XEP-0450", "sender keys belong to the sending account (what an E2EE extension guarantees after decryption)",
                                  "memory storage back end; other QXmppAtmTrustStorage implementations are not covered"], floors)
