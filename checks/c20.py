"""C20 — the entity-capabilities hash is the XEP-0115 value, order- and duplicate-blind (engines: caps; client half via wire)"""
import base64, hashlib, json, os, sys, collections
from concurrent.futures import ProcessPoolExecutor
from xml.sax.saxutils import escape, quoteattr
import vf


def xep0115(identities, features, form):
    """XEP-0115 5.1, i;octet collation on UTF-8"""
    b = lambda s: s.encode("utf8")
    S = b""
    for i in sorted(identities, key=lambda i: (b(i["category"]), b(i["type"]), b(i["lang"]), b(i["name"]))):
        S += b(i["category"]) + b"/" + b(i["type"]) + b"/" + b(i["lang"]) + b"/" + b(i["name"]) + b"<"
    for f in sorted(set(features), key=b):
        S += b(f) + b"<"
    if form:
        ft = [f for f in form["fields"] if f["var"] == "FORM_TYPE"][0]
        S += b(ft["values"][0]) + b"<"
        for f in sorted([f for f in form["fields"] if f["var"] != "FORM_TYPE"], key=lambda f: b(f["var"])):
            S += b(f["var"]) + b"<"
            for v in sorted(f["values"], key=b):
                S += b(v) + b"<"
    return base64.b64encode(hashlib.sha1(S).digest()).decode()


ALPH = ["abcdefghijklmnopqrstuvwxyz", "ABCXYZ019-_.:#/", "äöüéñ", "中文日本", "￮", "\U0001F600\U00010348\U0001D11E"]


def tok(r, n=None, classes=None):
    classes = classes or r.choice([[0], [0, 1], [0, 2], [0, 3], [4, 5], [0, 4, 5], list(range(6))])
    return "".join(r.choice(ALPH[r.choice(classes)]) for _ in range(n or r.choice([1, 2, 4, 8])))


def gen(r):
    ids = []
    for _ in range(r.choice([0, 1, 1, 2, 3, 4])):
        base = {"category": r.choice(["client", "conference", "pubsub", tok(r)]), "type": r.choice(["pc", "phone", "bot", tok(r)]),
                "lang": r.choice(["", "en", "de", "el", tok(r, 2, [0])]), "name": r.choice(["", "Psi", "Gajim", tok(r)])}
        ids.append(base)
        if r.random() < 0.3:   # same category/type/lang, different name; same everything but lang
            v = dict(base)
            v[r.choice(["name", "lang", "type"])] = tok(r, 3)
            ids.append(v)
    feats = []
    for _ in range(r.choice([0, 1, 3, 6, 12])):
        feats.append(r.choice(["http://jabber.org/protocol/disco#info", "http://jabber.org/protocol/caps", "urn:xmpp:ping", "jabber:iq:version", tok(r, 6), "urn:" + tok(r, 3)]))
    if feats and r.random() < 0.4:
        feats += r.sample(feats, min(len(feats), 2))   # repeated features
    form = None
    if r.random() < 0.5:
        fields = [{"var": "FORM_TYPE", "type": "hidden", "values": [r.choice(["urn:xmpp:dataforms:softwareinfo", tok(r, 8)])]}]
        seen = set()
        for _ in range(r.choice([0, 1, 2, 4])):
            var = r.choice(["os", "os_version", "software", "software_version", "ip_version", tok(r, 4)])
            if var in seen:
                continue
            seen.add(var)
            t = r.choice(["text-single", "text-single", "text-multi", "list-multi", "list-single"])
            if t in ("text-multi", "list-multi"):
                vals = [tok(r) for _ in range(r.choice([1, 2, 3, 4]))]
            else:
                vals = [tok(r)]
            fields.append({"var": var, "type": t, "values": vals})
        form = {"fields": fields}
    return ids, feats, form


def to_xml(ids, feats, form, r):
    parts = []
    for i in ids:
        a = " category=%s type=%s" % (quoteattr(i["category"]), quoteattr(i["type"]))
        if i["lang"]:
            a += " xml:lang=%s" % quoteattr(i["lang"])
        if i["name"]:
            a += " name=%s" % quoteattr(i["name"])
        parts.append("<identity%s/>" % a)
    for f in feats:
        parts.append("<feature var=%s/>" % quoteattr(f))
    r.shuffle(parts)
    x = ""
    if form:
        fs = list(form["fields"])
        r.shuffle(fs)
        x = "<x xmlns='jabber:x:data' type='result'>" + "".join(
            "<field var=%s type='%s'>%s</field>" % (quoteattr(f["var"]), f["type"], "".join("<value>%s</value>" % escape(v) for v in f["values"])) for f in fs) + "</x>"
    return "<iq type='result' id='d1' from='a@b/c'><query xmlns='http://jabber.org/protocol/disco#info'>%s%s</query></iq>" % ("".join(parts), x)


def permute(ids, feats, form, r):
    ids2, feats2 = list(ids), list(feats)
    r.shuffle(ids2)
    r.shuffle(feats2)
    form2 = None
    if form:
        fs = [dict(f, values=r.sample(f["values"], len(f["values"]))) for f in form["fields"]]
        r.shuffle(fs)
        form2 = {"fields": fs}
    return ids2, feats2, form2


def perturb(ids, feats, form, r):
    """a single-element change that must change the hash; returns (ids, feats, form, what) or None"""
    ids, feats = [dict(i) for i in ids], list(feats)
    form = {"fields": [dict(f, values=list(f["values"])) for f in form["fields"]]} if form else None
    choices = ["add-feature", "add-identity"]
    if feats: choices += ["remove-feature", "alter-feature"]
    if ids: choices += ["remove-identity", "alter-identity-name", "alter-identity-lang"]
    if form and len(form["fields"]) > 1: choices += ["alter-form-value", "add-form-value"]
    c = r.choice(choices)
    if c == "add-feature":
        f = "urn:zz:" + tok(r, 6, [0])
        if f in feats: return None
        feats.append(f)
    elif c == "remove-feature":
        f = r.choice(feats)
        feats = [x for x in feats if x != f]
    elif c == "alter-feature":
        i = r.randrange(len(feats)); old = feats[i]
        feats = [x + "X" if x == old else x for x in feats]
        if old + "X" in set(feats) - {old + "X"}: return None
    elif c == "add-identity":
        ids.append({"category": "zz" + tok(r, 3, [0]), "type": "t", "lang": "", "name": "n"})
    elif c == "remove-identity":
        i = ids.pop(r.randrange(len(ids)))
        if i in ids: return None
    elif c == "alter-identity-name":
        ids[r.randrange(len(ids))]["name"] += "X"
    elif c == "alter-identity-lang":
        ids[r.randrange(len(ids))]["lang"] += "x"
    elif c == "alter-form-value":
        f = r.choice([f for f in form["fields"] if f["var"] != "FORM_TYPE"]); f["values"][0] += "X"
    elif c == "add-form-value":
        fl = [f for f in form["fields"] if f["type"] in ("text-multi", "list-multi")]
        if not fl: return None
        r.choice(fl)["values"].append("zz" + tok(r, 3, [0]))
    return ids, feats, form, c


def order_class(ids, feats, form):
    """which collation-sensitive feature the case exercises (for signatures/coverage)"""
    def astral(s): return any(ord(c) > 0xffff for c in s)
    def high_bmp(s): return any(0xe000 <= ord(c) <= 0xffff for c in s)
    strs = [i[k] for i in ids for k in i] + list(feats) + ([v for f in form["fields"] for v in [f["var"]] + f["values"]] if form else [])
    if any(astral(s) for s in strs) and any(high_bmp(s) for s in strs):
        return "astral+highBMP"
    return "plain"


def worker(args):
    wid, count = args
    binary = vf.build_harness("caps")
    r = vf.rng("c20", wid)
    reqs, meta = [], {}
    n = 0
    for c in range(count):
        ids, feats, form = gen(r)
        exp = xep0115(ids, feats, form)
        cls = order_class(ids, feats, form)
        group = c
        # setter-built, 3 permutations; parsed from XML, 2 permutations
        for p in range(5):
            i2, f2, fo2 = permute(ids, feats, form, r) if p else (ids, feats, form)
            if p < 3:
                q = {"n": n, "op": "hash", "identities": i2, "features": f2}
                if fo2: q["form"] = fo2
            else:
                q = {"n": n, "xml": to_xml(i2, f2, fo2, r)}
            reqs.append(q)
            meta[n] = ("same", group, exp, cls, {"identities": i2, "features": f2, "form": fo2, "via": "setters" if p < 3 else "xml"})
            n += 1
        pt = perturb(ids, feats, form, r)
        if pt:
            i3, f3, fo3, what = pt
            q = {"n": n, "op": "hash", "identities": i3, "features": f3}
            if fo3: q["form"] = fo3
            reqs.append(q)
            meta[n] = ("diff", group, xep0115(i3, f3, fo3), cls, {"identities": i3, "features": f3, "form": fo3, "perturbation": what, "base": {"identities": ids, "features": feats, "form": form}})
            n += 1
    resp, crashes = vf.drive(binary, reqs)
    viol, stats = [], collections.Counter()
    for rq, info in crashes:
        viol.append(("crash " + vf.crash_sig(info), "sanitizer report / abnormal exit in verificationString()", {"request": rq, "stderr": info["stderr"][-3000:]}))
    by_group = collections.defaultdict(list)
    for k, (kind, group, exp, cls, w) in meta.items():
        o = resp.get(k)
        if not o or o.get("bad_input"):
            continue
        stats["hashes"] += 1
        stats["class:" + cls] += 1
        by_group[group].append((kind, o["ver"], exp, w, cls))
    for group, items in by_group.items():
        same = [i for i in items if i[0] == "same"]
        vers = set(i[1] for i in same)
        base_exp = same[0][2] if same else None
        if len(vers) > 1:
            viol.append(("order-dependent " + same[0][4], "the hash of one info set changes under reordering / repetition", {"permutations": [dict(i[3], ver=i[1]) for i in same], "xep0115": base_exp}))
        else:
            stats["order_blind_groups"] += 1
        for kind, ver, exp, w, cls in items:
            if ver != exp:
                if kind == "same" and len(vers) > 1:
                    continue
                has_form = bool(w.get("form"))
                viol.append(("differs-from-xep0115 %s %s" % (cls, "form" if has_form else "noform"), "verificationString() differs from the XEP-0115 5.1 value", dict(w, ver=ver, xep0115=exp)))
                break
            stats["equal_to_reference"] += 1
        for kind, ver, exp, w, cls in items:
            if kind == "diff":
                stats["perturbations"] += 1
                if same and ver == same[0][1]:
                    viol.append(("perturbation-not-reflected " + w["perturbation"], "hash unchanged although an element was added/removed/altered", dict(w, ver=ver)))
    return viol, dict(stats), {"identities": ids, "features": feats, "form": form, "xep0115": exp}


# ------------------------------------------------------------------------------------------------ advertised vs answered (wire engine)

WIRE_MANAGERS = ["carbons2", "mam", "pubsub", "blocking", "upload", "extdisco", "mix", "receipts", "time", "muc", "bookmarks", "attention", "jmi", "callinvite", "rpc", "registration", "archive",
                 "location", "tune", "moved", "uploadrequest", "transfer"]


def parse_info(xml):
    """identities / features / form of a disco#info result -> the structures xep0115() takes"""
    from xml.dom import minidom
    d = minidom.parseString(xml.encode("utf8")).documentElement
    q = [c for c in d.childNodes if c.nodeType == 1 and c.localName == "query"]
    if not q:
        return None
    q = q[0]
    ids, feats, form = [], [], None
    for c in q.childNodes:
        if c.nodeType != 1:
            continue
        if c.localName == "identity":
            ids.append({"category": c.getAttribute("category"), "type": c.getAttribute("type"), "lang": c.getAttribute("xml:lang"), "name": c.getAttribute("name")})
        elif c.localName == "feature":
            feats.append(c.getAttribute("var"))
        elif c.localName == "x":
            fields = []
            for f in c.childNodes:
                if f.nodeType == 1 and f.localName == "field":
                    fields.append({"var": f.getAttribute("var"), "values": ["".join(t.data for t in v.childNodes if t.nodeType == 3) for v in f.childNodes if v.nodeType == 1 and v.localName == "value"]})
            if any(f["var"] == "FORM_TYPE" for f in fields):
                form = {"fields": fields}
    return ids, feats, form, q.getAttribute("node")


def wire_worker(args):
    import wire
    from xml.dom import minidom
    wid, n = args
    r = vf.rng("c20-wire", wid)
    binary = vf.build_harness("wire")
    cases, metas = [], []
    for i in range(n):
        managers = [m for m in WIRE_MANAGERS if r.random() < 0.4]
        if r.random() < 0.35:
            # plug-ins that announce the same identity (and feature) more than once: two instances, or one next to the RPC manager
            d_ = r.choice(["dupident", "dupident-named"])
            managers += [d_] * r.choice([1, 2, 3])
        opts = {}
        if r.random() < 0.7:
            opts["clientName"] = tok(r, r.choice([1, 6, 20]))
        if r.random() < 0.4:
            opts["clientType"] = r.choice(["pc", "phone", "bot", "web", tok(r, 4, [0])])
        if r.random() < 0.3:
            opts["clientCategory"] = r.choice(["client", "automation", tok(r, 5, [0])])
        if r.random() < 0.4:
            opts["capsNode"] = r.choice(["https://example.org/client", "urn:example:%s" % tok(r, 4, [0]), tok(r, 8)])
        if r.random() < 0.5:
            fields = [{"var": "FORM_TYPE", "values": ["urn:xmpp:dataforms:softwareinfo"]}]
            for _ in range(r.randrange(0, 4)):
                fields.append({"var": tok(r, 5, [0, 1]), "values": [tok(r, r.choice([1, 4, 9])) for _ in range(r.choice([1, 1, 2, 3]))]})
            opts["infoForm"] = fields
        steps = [wire.client(managers=managers, **opts)] + wire.login_sasl(sm=False) + [dict(op="wait_signal", name="connected"), dict(op="fence")]
        steps.append(wire.S("<iq type='get' id='di-plain' from='bob@example.org/x' to='%s'><query xmlns='http://jabber.org/protocol/disco#info'/></iq>" % wire.JID))
        steps.append(wire.S("<iq type='get' id='di-node' from='bob@example.org/x' to='%s'><query xmlns='http://jabber.org/protocol/disco#info' node='$CAPS'/></iq>" % wire.JID))
        steps.append(dict(op="fence"))
        # the application changes what it advertises while connected and publishes its presence again: the new <c ver/> must match the new answer
        change = {}
        if r.random() < 0.6:
            k = r.choice(["clientName", "clientType", "clientCategory", "infoFormValue"])
            change = {k: {"clientName": tok(r, 7), "clientType": r.choice(["phone", "bot", "web"]), "clientCategory": r.choice(["automation", "client", "gateway"]), "infoFormValue": tok(r, 5)}[k]}
            steps.append(dict(op="discoSet", **change))
            steps.append(dict(op="clientPresence", status="changed"))
            steps.append(dict(op="fence"))
            steps.append(wire.S("<iq type='get' id='di-node2' from='bob@example.org/x' to='%s'><query xmlns='http://jabber.org/protocol/disco#info' node='$CAPS'/></iq>" % wire.JID))
            steps.append(wire.S("<iq type='get' id='di-plain2' from='bob@example.org/x' to='%s'><query xmlns='http://jabber.org/protocol/disco#info'/></iq>" % wire.JID))
            steps.append(dict(op="fence"))
        cases.append(dict(steps=steps, timeout=4000))
        metas.append((managers, dict(opts, changed_while_connected=change)))
    outs, crashes = wire.run_cases(binary, cases)
    viol, stats = [], collections.Counter()
    for rq, info in crashes:
        viol.append(("wire crash " + vf.crash_sig(info), "sanitizer report / abnormal exit while the client answered disco#info", {"stderr": info["stderr"][-3000:]}))
    for out, (managers, opts) in zip(outs, metas):
        if not out:
            continue
        j = out["journal"]
        capsl = []
        for e in wire.srv_rx(j):
            if e["tag"] == "presence" and "protocol/caps" in e.get("xml", ""):
                d = minidom.parseString(e["xml"].encode("utf8")).documentElement
                for c in d.childNodes:
                    if c.nodeType == 1 and c.localName == "c":
                        capsl.append({"node": c.getAttribute("node"), "ver": c.getAttribute("ver"), "hash": c.getAttribute("hash")})
        if not capsl:
            stats["no_caps_in_presence"] += 1
            continue
        stats["sessions"] += 1
        replies_all = {e["id"]: e for e in wire.srv_rx(j) if e["tag"] == "iq" and e["id"] in ("di-plain", "di-node", "di-plain2", "di-node2")}
        rounds = [(capsl[0], ("di-plain", "di-node"))]
        if opts.get("changed_while_connected") and len(capsl) > 1:
            rounds.append((capsl[-1], ("di-plain2", "di-node2")))
            stats["identity_changed_while_connected"] += 1
        for caps, rids in rounds:
            replies = replies_all
            w = {"managers": managers, "client_options": opts, "advertised": caps, "all_advertised": capsl}
            for rid in rids:
                e = replies.get(rid)
                if e is None or e["type"] != "result":
                    viol.append(("disco-info-not-answered %s" % rid, "the client did not answer a disco#info query%s with a result" % (" for the advertised node#ver" if rid == "di-node" else ""), dict(w, reply=e and e.get("xml", "")[:1500])))
                    continue
                ids, feats, form, node = parse_info(e["xml"])
                h = xep0115(ids, feats, form)
                stats["replies_hashed"] += 1
                if caps["hash"] != "sha-1":
                    viol.append(("advertised-hash-algorithm %s" % caps["hash"], "presence advertises a caps hash algorithm other than sha-1", w))
                elif h != caps["ver"]:
                    viol.append(("advertised-ver-differs-from-answer %s%s" % (rid, " form" if form else ""), "the ver advertised in presence is not the XEP-0115 hash of the disco#info answer", dict(w, answer=e["xml"][:4000], hash_of_answer=h)))
                else:
                    stats["ver_matches"] += 1
                    if form:
                        stats["ver_matches_with_form"] += 1
                if rid == "di-node" and node != "%s#%s" % (caps["node"], caps["ver"]):
                    viol.append(("answer-node-differs", "the answer to a query for node#ver names another node", dict(w, answer=e["xml"][:2000])))
        stats["features_seen"] = max(stats["features_seen"], len(feats))
    return viol, dict(stats)


def wire_half(V, tier):
    W = vf.NPROC
    n = (200 if tier == "quick" else 5000) // W + 1
    with ProcessPoolExecutor(max_workers=W) as ex:
        res = list(ex.map(wire_worker, [(w, n) for w in range(W)]))
    stats = collections.Counter()
    for viol, st in res:
        for sig, what, w in viol:
            V.violation(sig, what, w)
        fs = st.pop("features_seen", 0)
        stats.update(st)
        stats["max_features_in_an_answer"] = max(stats["max_features_in_an_answer"], fs)
    return dict(stats)


def main(tier, replay=None):
    V = vf.Verdict("C20", tier)
    wire_stats = wire_half(V, tier)
    vf.build_harness("caps")
    total = 20000 if tier == "quick" else 1000000
    W = vf.NPROC
    with ProcessPoolExecutor(max_workers=W) as ex:
        res = list(ex.map(worker, [(w, total // W) for w in range(W)]))
    stats, sample = collections.Counter(), None
    for viol, st, smp in res:
        for sig, what, w in viol:
            V.violation(sig, what, w)
        stats.update(st)
        sample = smp
    cov = {"evaluations": stats["hashes"], "distinct_nontrivial": stats["order_blind_groups"] + stats["perturbations"],
           "rule": "random info sets (0-8 identities incl. ones differing only in name/lang/type, 0-14 features with repeats, optional FORM_TYPE form with single- and multi-valued fields; alphabets ASCII, Latin-1, CJK, "
                   "BMP >= U+E000, astral) each hashed in 5 permutations (3 through setters, 2 parsed from XML) and once with a single-element perturbation; compared with an independent Python XEP-0115 5.1 implementation "
                   "(i;octet order); distinct_nontrivial = info sets confirmed order-blind + perturbations confirmed to change the hash",
           "observed": dict(stats), "samples": [sample],
           "advertised_vs_answered": dict(wire_stats, rule="real client sessions with a random subset of 22 optional managers, random client name/type/category/caps node and optional software-info form: the <c ver/> of the initial presence "
                                                        "must equal the independent XEP-0115 hash of the client's answers to disco#info (without node and for node#ver), the answer must name the queried node")}
    floors = {"hashes": stats["hashes"] > 1000, "perturbations": stats["perturbations"] > 100, "astral_cases": stats["class:astral+highBMP"] > 0, "wire_ver_matches": wire_stats.get("ver_matches", 0) >= 100, "wire_with_form": wire_stats.get("ver_matches_with_form", 0) > 0}
    V.finish(cov, "exploration", ["Python hashlib and our reading of XEP-0115 5.1 (octet collation, duplicate features collapse)", "the presence-vs-disco#info half runs real client sessions against the scripted server on loopback"], floors)
