"""C06 — SASL exchanges follow their RFCs; a server that cannot prove itself is refused (engine: sasl)

Python (pysasl.py) generates complete vectors; the real QXmppSaslClient / SaslManager / Sasl2Manager replay them.
"""
import base64, json, os, sys
from concurrent.futures import ProcessPoolExecutor
from xml.sax.saxutils import escape
import vf, pysasl
from pysasl import b64

ALPHA = ["abcdefghijklmnopqrstuvwxyzABCDEFGHIJKLMNOPQRSTUVWXYZ0123456789", "._-+!#$%^*()[]{}|~`?;", ",=", "\"\\':/@<>&", "äöüßéñçøå", "中文字日本語한국", "жщюяфы", "αβγδε", "\U0001F600\U00010348"]


def gen_text(r, n, classes):
    while True:
        s = "".join(r.choice(r.choice(classes)) for _ in range(n))
        if pysasl.saslprep_identity(s):
            return s


def gen_cred(r):
    classes = r.choice([[ALPHA[0]], [ALPHA[0], ALPHA[1]], [ALPHA[0], ALPHA[2]], [ALPHA[0], ALPHA[3]], ALPHA[:4], [ALPHA[0], ALPHA[4]], [ALPHA[5]], [ALPHA[0], ALPHA[6], ALPHA[7]], ALPHA])
    user = gen_text(r, r.choice([1, 2, 5, 8, 20]), classes)
    pw = gen_text(r, r.choice([1, 3, 8, 16, 64]), classes)
    return user, pw


def gen_nonce(r, n=None, hostile=False):
    chars = "abcdefghijklmnopqrstuvwxyzABCDEFGHIJKLMNOPQRSTUVWXYZ0123456789+/"
    if hostile:
        chars += "!#$%&()*-.:;<>?@[]^_{|}~"
    return "".join(r.choice(chars) for _ in range(n or r.choice([8, 16, 24, 44])))


def latin1_ambiguous(s):
    return all(ord(c) <= 0xff for c in s) and any(ord(c) >= 0x80 for c in s)


def dec(x):
    return None if x is None else base64.b64decode(x)


def scram_vectors(r, n0, count):
    reqs, meta = [], {}
    n = n0
    prev = None
    for _ in range(count):
        mech = r.choice(list(pysasl.SCRAM_HASH))
        user, pw = gen_cred(r)
        cnonce, snonce = gen_nonce(r), gen_nonce(r)
        salt = r.randbytes(r.choice([1, 8, 16, 32]))
        it = r.choice([1, 2, 10, 100, 4096, r.randrange(1, 4097)]) if r.random() < 0.995 else 100000
        repeat = prev is not None and r.random() < 0.2
        if repeat:
            # history: the same account (mechanism, user, salt, iteration count) logs in again in the same process,
            # after a typo or a password change: nothing of the earlier exchange may leak into this one
            mech, user, salt, it, oldpw = prev
            pw = r.choice([oldpw + "x", oldpw[:-1] or "y", gen_cred(r)[1], oldpw])
        prev = (mech, user, salt, it, pw)
        sv = pysasl.ScramServerView(mech, user, pw, cnonce, snonce, salt, it)
        variant = "honest" if repeat else r.choice(["honest"] * 4 + ["nonce-foreign", "nonce-prefix-altered", "nonce-truncated", "i-zero", "i-negative", "i-missing", "i-text", "salt-missing", "salt-empty",
                                             "sig-wrong", "sig-other-password", "sig-missing", "server-error", "extra-step", "sig-truncated"])
        sf = sv.server_first
        reject_at = None
        if variant == "nonce-foreign":
            sf = "r=%s,s=%s,i=%d" % (gen_nonce(r) + snonce, b64(salt), it); reject_at = 1
        elif variant == "nonce-prefix-altered":
            alt = ("X" if cnonce[0] != "X" else "Y") + cnonce[1:]
            sf = "r=%s,s=%s,i=%d" % (alt + snonce, b64(salt), it); reject_at = 1
        elif variant == "nonce-truncated":
            if len(cnonce) < 2:
                continue
            sf = "r=%s,s=%s,i=%d" % (cnonce[:-1], b64(salt), it); reject_at = 1
        elif variant == "i-zero":
            sf = "r=%s,s=%s,i=0" % (sv.nonce, b64(salt)); reject_at = 1
        elif variant == "i-negative":
            sf = "r=%s,s=%s,i=-5" % (sv.nonce, b64(salt)); reject_at = 1
        elif variant == "i-missing":
            sf = "r=%s,s=%s" % (sv.nonce, b64(salt)); reject_at = 1
        elif variant == "i-text":
            sf = "r=%s,s=%s,i=many" % (sv.nonce, b64(salt)); reject_at = 1
        elif variant == "salt-missing":
            sf = "r=%s,i=%d" % (sv.nonce, it); reject_at = 1
        elif variant == "salt-empty":
            sf = "r=%s,s=,i=%d" % (sv.nonce, it); reject_at = 1
        steps = ["", sf]
        expect = [sv.client_first.encode()]
        if reject_at == 1:
            expect.append(None)
        else:
            cf, sfin = sv.finals(sf)
            expect.append(cf.encode())
            final = sfin
            if variant == "sig-wrong":
                raw = bytearray(base64.b64decode(sfin[2:])); raw[r.randrange(len(raw))] ^= 1 << r.randrange(8)
                final = "v=" + b64(bytes(raw)); reject_at = 2
            elif variant == "sig-other-password":
                final = sv.finals(sf, pw + "x")[1]; reject_at = 2
            elif variant == "sig-missing":
                final = ""; reject_at = 2
            elif variant == "sig-truncated":
                final = "v=" + b64(base64.b64decode(sfin[2:])[:-1]); reject_at = 2
            elif variant == "server-error":
                final = "e=invalid-proof"; reject_at = 2
            steps.append(final)
            expect.append(None if reject_at == 2 else b"")
            if variant == "extra-step":
                steps.append(sfin)
                expect.append(None)
        reqs.append({"n": n, "op": "exchange", "mech": mech, "user": user, "password": pw, "host": "example.org", "nonce": b64(cnonce.encode()),
                     "steps": [b64(s.encode()) for s in steps]})
        meta[n] = ("scram", "honest-relogin" if repeat else variant, expect, {"mech": mech, "user": user, "password": pw, "cnonce": cnonce, "server_messages": steps[1:], "iterations": it})
        n += 1
    return reqs, meta, n


def md5_vectors(r, n0, count):
    reqs, meta = [], {}
    n = n0
    for _ in range(count):
        user, pw = gen_cred(r)
        host = r.choice(["example.org", "xmpp.example.com", "localhost"])
        cnonce = gen_nonce(r)
        hostile = r.random() < 0.2
        nonce = gen_nonce(r, hostile=hostile)
        realm = r.choice(["", host, "my realm", "r,e=alm"] + (['quo"ted', "back\\slash"] if hostile else []))
        variant = r.choice(["honest"] * 3 + ["rspauth-wrong", "rspauth-missing", "no-nonce", "qop-int-only", "extra-step"])
        parts = []
        if realm:
            parts.append(b"realm=" + pysasl.md5_quote(realm.encode()))
        if variant != "no-nonce":
            parts.append(b"nonce=" + pysasl.md5_quote(nonce.encode()))
        parts.append(b'qop="auth-int"' if variant == "qop-int-only" else r.choice([b'qop="auth"', b'qop="auth,auth-int"', b"qop=auth"]))
        parts += [b"charset=utf-8", b"algorithm=md5-sess"]
        r.shuffle(parts)
        challenge = b",".join(parts)
        uri = ("xmpp/" + host).encode()
        good = pysasl.md5_response(user.encode(), realm.encode(), pw.encode(), nonce.encode(), cnonce.encode(), b"00000001", uri, method=b"")
        if variant == "rspauth-wrong":
            rsp = b"rspauth=" + (b"0" if good[:1] != b"0" else b"1") + good[1:]
        elif variant == "rspauth-missing":
            rsp = b""
        else:
            rsp = b"rspauth=" + good
        steps = [b"", challenge, rsp]
        if variant == "extra-step":
            steps.append(rsp)
        reqs.append({"n": n, "op": "exchange", "mech": "DIGEST-MD5", "user": user, "password": pw, "host": host, "nonce": b64(cnonce.encode()),
                     "steps": [b64(s) for s in steps]})
        meta[n] = ("md5", variant, None, {"user": user, "password": pw, "host": host, "cnonce": cnonce, "nonce": nonce, "realm": realm, "challenge": challenge.decode("utf8", "replace"),
                                         "rspauth": rsp.decode()})
        n += 1
    return reqs, meta, n


def simple_vectors(r, n0, count):
    reqs, meta = [], {}
    n = n0
    for _ in range(count):
        user, pw = gen_cred(r)
        if r.random() < 0.5:
            reqs.append({"n": n, "op": "exchange", "mech": "PLAIN", "user": user, "password": pw, "host": "example.org", "nonce": "", "steps": ["", ""]})
            meta[n] = ("plain", "honest", [pysasl.plain(user, pw), None], {"user": user, "password": pw})
        else:
            hname = r.choice(list(pysasl.HT_HASH))
            secret = gen_text(r, r.choice([1, 16, 40, 100]), [ALPHA[0], ALPHA[1], ALPHA[4]])
            mech = "HT-%s-NONE" % hname
            variant = r.choice(["honest", "honest", "token-other-mech", "nonempty-challenge"])
            tokmech = mech if variant != "token-other-mech" else "HT-%s-NONE" % r.choice([h for h in pysasl.HT_HASH if h != hname])
            steps = ["", ""] if variant != "nonempty-challenge" else [b64(b"x")]
            exp = [pysasl.ht(hname, user, secret), None] if variant == "honest" else [None] * len(steps)
            reqs.append({"n": n, "op": "exchange", "mech": mech, "user": user, "password": "", "host": "example.org", "nonce": "",
                         "token": {"mech": tokmech, "secret": secret}, "steps": steps})
            meta[n] = ("ht", variant, exp, {"mech": mech, "user": user, "secret": secret, "token_mech": tokmech})
        n += 1
    return reqs, meta, n


def xml_sasl1(kind, data=None):
    ns = "urn:ietf:params:xml:ns:xmpp-sasl"
    if kind == "challenge":
        return "<challenge xmlns='%s'>%s</challenge>" % (ns, b64(data.encode()) if data else "=")
    if kind == "success":
        return "<success xmlns='%s'>%s</success>" % (ns, b64(data.encode()) if data else "") if data is not None else "<success xmlns='%s'/>" % ns


def xml_sasl2(kind, data=None):
    ns = "urn:xmpp:sasl:2"
    if kind == "challenge":
        return "<challenge xmlns='%s'>%s</challenge>" % (ns, b64(data.encode()))
    if kind == "success":
        ad = "<additional-data>%s</additional-data>" % b64(data.encode()) if data is not None else ""
        return "<success xmlns='%s'>%s<authorization-identifier>alice@example.org</authorization-identifier></success>" % (ns, ad)


def manager_vectors(r, n0, count):
    """server message sequences through SaslManager / Sasl2Manager with SCRAM; judged: success reported => a correct v= was delivered"""
    reqs, meta = [], {}
    n = n0
    seqs = ["honest-challenge", "final-in-success", "success-first", "success-after-final-nodata", "success-after-final-wrong", "wrong-nonce-then-success",
            "wrong-sig-challenge-then-success", "missing-fields-then-success", "success-after-first-with-right-sig", "success-wrong-password-sig",
            "success-first-carrying-server-first", "success-carrying-server-first-again", "success-carrying-error", "success-carrying-garbage"] + ["random-sequence"] * 6
    for _ in range(count):
        sasl2 = r.random() < 0.5
        X = xml_sasl2 if sasl2 else xml_sasl1
        mech = r.choice(list(pysasl.SCRAM_HASH))
        user, pw = gen_cred(r)
        # the manager takes the user name from the configuration (JID local part): keep it a valid local part
        user = "".join(c for c in user if c not in "\"&'/:<>@ ") or "u"
        cnonce, snonce = gen_nonce(r), gen_nonce(r)
        salt, it = r.randbytes(16), r.choice([1, 64, 4096])
        sv = pysasl.ScramServerView(mech, user, pw, cnonce, snonce, salt, it)
        cf, sfin = sv.finals()
        seq = r.choice(seqs)
        proof_delivered = False
        if seq == "honest-challenge":
            server = [X("challenge", sv.server_first), X("challenge", sfin), X("success")]; proof_delivered = True
        elif seq == "final-in-success":
            server = [X("challenge", sv.server_first), X("success", sfin)]; proof_delivered = True
        elif seq == "success-first":
            server = [X("success")]
        elif seq == "success-after-final-nodata":
            server = [X("challenge", sv.server_first), X("success")]
        elif seq == "success-after-final-wrong":
            server = [X("challenge", sv.server_first), X("success", sv.finals(password=pw + "x")[1])]
        elif seq == "wrong-nonce-then-success":
            server = [X("challenge", "r=%s,s=%s,i=%d" % ("zz" + sv.nonce, b64(salt), it)), X("success")]
        elif seq == "wrong-sig-challenge-then-success":
            server = [X("challenge", sv.server_first), X("challenge", sv.finals(password=pw + "x")[1]), X("success")]
        elif seq == "missing-fields-then-success":
            server = [X("challenge", "r=%s" % sv.nonce), X("success")]
        elif seq == "success-after-first-with-right-sig":
            # signature arrives, but before the client has sent its proof: the client cannot have verified anything
            server = [X("success", sfin)]
        elif seq == "success-wrong-password-sig":
            server = [X("challenge", sv.server_first), X("challenge", sv.finals(password="other")[1]), X("success", sfin)]
        elif seq == "success-first-carrying-server-first":
            # <success/> right after the client-first message whose data is a well-formed server-first message: the client can compute
            # its final message from it, but nothing has been proved
            server = [X("success", sv.server_first)]
        elif seq == "success-carrying-server-first-again":
            server = [X("challenge", sv.server_first), X("success", sv.server_first)]
        elif seq == "success-carrying-error":
            server = [X("challenge", sv.server_first), X("success", "e=invalid-proof")]
        elif seq == "success-carrying-garbage":
            server = [X("challenge", sv.server_first), X("success", r.choice(["v=", "v", "x=y", "v=AAAA", ",", "v=" + b64(r.randbytes(20))]))]
        elif seq == "random-sequence":
            # any short sequence of server messages; the reference steps a three-state model of the exchange:
            # 0 = client-first sent, 1 = client-final sent, 2 = a correct signature has been delivered after the client-final
            pool = {"sf": sv.server_first, "fin": sfin, "wrongfin": sv.finals(password=pw + "x")[1], "err": "e=other-error", "none": None, "junk": "r=" + sv.nonce}
            server, state, names, decided = [], 0, [], None
            for _k in range(r.randint(1, 4)):
                kind = r.choice(["challenge", "challenge", "success"])
                dname = r.choice(list(pool))
                if kind == "challenge" and dname == "none":
                    dname = "junk"
                names.append(kind[0] + ":" + dname)
                server.append(X(kind, pool[dname]))
                if decided is not None:
                    continue
                if state == 0:
                    if kind == "challenge" and dname == "sf":
                        state = 1
                    else:
                        decided = False            # success before anything was proved, or a first message the client must refuse
                elif state == 1:
                    if dname == "fin":
                        state = 2
                        if kind == "success":
                            decided = True
                    else:
                        decided = False
                elif state == 2:
                    # after a delivered proof only <success/> can follow; what it carries is not judged
                    decided = True if kind == "success" else "dontcare"
            if decided is None:
                decided = "pending"
            seq = "random-sequence " + " ".join(names)
            proof_delivered = decided
        reqs.append({"n": n, "op": "manager", "sasl2": sasl2, "offered": [mech], "user": user, "password": pw, "disabled": [], "preferred": "", "nonce": b64(cnonce.encode()),
                     "server": server})
        meta[n] = ("mgr", seq, proof_delivered, {"sasl2": sasl2, "mech": mech, "user": user, "password": pw, "server": server, "expected_client_final": cf})
        n += 1
    return reqs, meta, n


def worker(args):
    wid, count = args
    binary = vf.build_harness("sasl")
    r = vf.rng("c06", wid)
    reqs, meta = [], {}
    n = 0
    for gen, share in ((scram_vectors, 0.45), (md5_vectors, 0.2), (simple_vectors, 0.15), (manager_vectors, 0.2)):
        q, m, n = gen(r, n, max(1, int(count * share)))
        reqs += q
        meta.update(m)
    resp, crashes = vf.drive(binary, reqs)
    viol, stats, samples = [], {"vectors": 0, "by_kind": {}, "rejections_checked": 0, "honest_checked": 0, "dontcare_latin1": 0, "mgr_success_with_proof": 0, "mgr_refused": 0}, []
    for rq, info in crashes:
        viol.append(("crash " + vf.crash_sig(info), "sanitizer report / abnormal exit in a SASL exchange", {"request": rq, "stderr": info["stderr"][-3000:]}))
    for k, (kind, variant, expect, w) in meta.items():
        o = resp.get(k)
        if not o:
            continue
        stats["vectors"] += 1
        bk = kind + ":" + variant.split(" ")[0]
        stats["by_kind"][bk] = stats["by_kind"].get(bk, 0) + 1
        w = dict(w, variant=variant)
        if kind in ("scram", "plain", "ht"):
            got = [dec(x) for x in o["resp"]]
            w["client_messages"] = [None if g is None else g.decode("utf8", "replace") for g in got]
            for i, e in enumerate(expect):
                g = got[i] if i < len(got) else None
                if e is None:
                    stats["rejections_checked"] += 1
                    if g is not None:
                        viol.append(("%s accepted %s" % (kind, variant), "client answered a server message it must refuse (%s, step %d)" % (variant, i), w))
                        break
                else:
                    if g != e:
                        what = "client message %d differs from the RFC value" % i
                        sig = "%s message-%d-differs" % (kind, i)
                        if kind == "scram" and i == 0 and ("," in w["user"] or "=" in w["user"]):
                            sig = "scram client-first username-not-escaped"
                            what = "user name containing ',' or '=' is not sent as =2C / =3D (RFC 5802 5.1)"
                        elif g is None:
                            sig = "%s refuses-honest step-%d" % (kind, i)
                            what = "client refuses an honest server message"
                        w["expected"] = e.decode("utf8", "replace")
                        viol.append((sig, what, w))
                        break
                    stats["honest_checked"] += 1
        elif kind == "md5":
            got = [dec(x) for x in o["resp"]]
            w["client_messages"] = [None if g is None else g.decode("utf8", "replace") for g in got]
            if variant in ("no-nonce", "qop-int-only"):
                stats["rejections_checked"] += 1
                if len(got) > 1 and got[1] is not None:
                    viol.append(("md5 accepted " + variant, "client answered a DIGEST-MD5 challenge it must refuse (%s)" % variant, w))
                continue
            if len(got) < 2 or got[1] is None:
                viol.append(("md5 refuses-honest challenge", "client refuses an honest DIGEST-MD5 challenge", w))
                continue
            try:
                d = pysasl.md5_parse(got[1])
            except Exception as e:
                viol.append(("md5 response-unparseable", "RFC 2831 parser cannot read the client response: %s" % e, w))
                continue
            user, pw, host = w["user"].encode(), w["password"].encode(), w["host"]
            uri = ("xmpp/" + host).encode()
            bad = None
            if d.get("username") != user: bad = "username"
            elif d.get("realm", b"") != w["realm"].encode(): bad = "realm"
            elif d.get("nonce") != w["nonce"].encode(): bad = "nonce"
            elif d.get("cnonce") != w["cnonce"].encode(): bad = "cnonce"
            elif d.get("nc") != b"00000001": bad = "nc"
            elif d.get("qop", b"auth") != b"auth": bad = "qop"
            elif d.get("digest-uri") != uri: bad = "digest-uri"
            if bad:
                viol.append(("md5 directive " + bad, "DIGEST-MD5 response directive %s = %r is not what the server sent/expects" % (bad, d.get(bad)), w))
                continue
            exp = pysasl.md5_response(user, w["realm"].encode(), pw, w["nonce"].encode(), w["cnonce"].encode(), b"00000001", uri)
            if d.get("response") != exp:
                if latin1_ambiguous(w["user"]) or latin1_ambiguous(w["password"]):
                    stats["dontcare_latin1"] += 1
                    continue
                viol.append(("md5 response-value", "DIGEST-MD5 response= differs from RFC 2831", w))
                continue
            if latin1_ambiguous(w["user"]) or latin1_ambiguous(w["password"]):
                stats["dontcare_latin1"] += 1   # UTF-8 used where RFC 2831 asks for ISO 8859-1: practice differs, not judged
            stats["honest_checked"] += 1
            g2 = got[2] if len(got) > 2 else None
            if variant in ("rspauth-wrong", "rspauth-missing"):
                stats["rejections_checked"] += 1
                if g2 is not None:
                    viol.append(("md5 accepted " + variant, "client accepts a wrong/missing rspauth", w))
            else:
                if g2 != b"":
                    viol.append(("md5 refuses-honest rspauth", "client refuses the correct rspauth", w))
                if variant == "extra-step" and len(got) > 3 and got[3] is not None:
                    viol.append(("md5 accepted extra-step", "client answers a challenge after the exchange is complete", w))
        elif kind == "mgr":
            proof = expect
            w["observed"] = o
            ver = "sasl2" if w["sasl2"] else "sasl1"
            if variant.startswith("random-sequence"):
                stats["mgr_random_sequences"] = stats.get("mgr_random_sequences", 0) + 1
                w["sequence"] = variant
                variant = "random-sequence"
                if proof in ("dontcare", "pending"):
                    # the sequence ends before <success/>, or continues after a delivered proof in a way the statement leaves open
                    if proof == "pending" and o["success"]:
                        viol.append(("scram success-reported-without-success-element %s" % ver, "login reported successful although the server never sent <success/>", w))
                    continue
            if o["success"] and not proof:
                viol.append(("scram success-without-server-proof %s %s" % (ver, variant), "SCRAM login reported successful although the server never presented a valid signature (%s)" % variant, w))
            elif o["success"]:
                stats["mgr_success_with_proof"] += 1
            else:
                stats["mgr_refused"] += 1
            if proof and not o["success"]:
                viol.append(("scram honest-server-refused %s %s" % (ver, variant), "honest SCRAM exchange (%s) did not end in success: %s" % (variant, o.get("error")), w))
            if not proof and not o["finished"] and variant != "success-first-pending":
                viol.append(("scram manager-hangs %s %s" % (ver, variant), "authentication neither succeeded nor failed after the server's <success/>", w))
        if len(samples) < 3 and variant != "honest" and stats["vectors"] % 50 == 0:
            samples.append({"kind": kind, "variant": variant, "inputs": {k2: v for k2, v in w.items() if k2 not in ("observed",)}})
    return viol, stats, samples


# ------------------------------------------------------------------------------------------------ whole client against a SCRAM-capable scripted server

HOSTILE = ["wrong-signature", "signature-of-other-password", "empty-signature", "success-without-data", "error-instead", "early-success", "bad-nonce", "short-nonce", "zero-iterations", "no-salt",
           "garbage-iterations", "extension-m"]
MECHS = ["SCRAM-SHA-1", "SCRAM-SHA-256", "SCRAM-SHA-512", "SCRAM-SHA3-512"]


def wire_session(mech, variant, sasl2, cpw, spw, iters, salt, same_read):
    import wire
    bind_ok = "<iq type='result' id='$ID'><bind xmlns='%s'><jid>%s</jid></bind></iq>" % (wire.NS_BIND, wire.JID)
    if sasl2:
        follow = wire.features() if same_read else ""
        st = [wire.client(password=cpw, sasl2=True, userAgent=True), dict(op="connect"), wire.A("stream:stream"), wire.S(wire.hdr("s1") + wire.features(wire.f_sasl2(mechs=[mech], bind2=True))),
              dict(op="scram", sasl2=True, variant=variant, password=spw, iters=iters, salt=salt, followUp=follow)]
        if not same_read:
            st.append(wire.S(wire.features(), optional=True))
    else:
        # (a hostile server may also put the next stream header and features into the same packet as <success/>)
        follow = wire.features(wire.F_BIND) if same_read else ""
        st = [wire.client(password=cpw), dict(op="connect"), wire.A("stream:stream"), wire.S(wire.hdr("s1") + wire.features(wire.f_mechs([mech]))),
              dict(op="scram", variant=variant, password=spw, iters=iters, salt=salt, followUp=follow),
              wire.A("stream:stream", optional=True, timeout=300)]
        if not same_read:
            st.append(wire.S(wire.hdr("s1b") + wire.features(wire.F_BIND), optional=True))
        st += [wire.A("iq", child="bind", optional=True, timeout=300), wire.S(bind_ok, optional=True)]
    st += [wire.A("iq", child="query", optional=True, timeout=300), wire.S("<iq type='result' id='$ID'><query xmlns='jabber:iq:roster'/></iq>", optional=True),
           dict(op="wait_signal", name="connected", optional=True, timeout=300, fromSeq=0), dict(op="settle", quiet=10)]
    return dict(steps=st, timeout=3000, stopOnStall=False)


def wire_worker(args):
    import wire
    wid, n = args
    r = vf.rng("c06-wire", wid)
    binary = vf.build_harness("wire")
    cases, metas = [], []
    for i in range(n):
        mech = r.choice(MECHS)
        sasl2 = r.random() < 0.5
        cpw = gen_cred(r)[1] if r.random() < 0.7 else "secret-pw-1234"
        kind = r.choice(["honest"] * 3 + ["other-secret"] + ["hostile"] * 4)
        variant, spw = "honest", cpw
        if kind == "other-secret":
            spw = cpw + "x" if r.random() < 0.5 or len(cpw) < 2 else cpw[:-1]
        elif kind == "hostile":
            variant = r.choice(HOSTILE)
        iters = r.choice([1, 2, 64, 500, 4096])
        salt = r.randbytes(r.choice([1, 8, 16, 33])).hex()
        # (a conforming server cannot send its next stream header before the client's restart: only SASL2, which has no restart, or a
        #  hostile server puts what follows into the same packet as <success/>)
        same_read = r.random() < 0.5 and (sasl2 or kind == "hostile")
        cases.append(wire_session(mech, variant, sasl2, cpw, spw, iters, salt, same_read))
        metas.append(dict(mechanism=mech, sasl2=sasl2, kind=kind, variant=variant, iterations=iters, salt=salt, follow_up_in_same_packet=same_read, client_password=cpw, server_password=spw))
    outs, crashes = wire.run_cases(binary, cases)
    viol, stats = [], {"wire_sessions": 0, "wire_honest_connected": 0, "wire_refused": 0, "wire_other_secret_refused": 0, "wire_by_variant": {}}
    for rq, info in crashes:
        viol.append(("wire crash " + vf.crash_sig(info), "sanitizer report / abnormal exit of a client during a SCRAM login", {"stderr": info["stderr"][-3000:]}))
    for out, m in zip(outs, metas):
        if not out:
            continue
        j = out["journal"]
        sc = [e for e in j if e["ev"] == "scram"]
        if not sc or sc[0].get("stage") == "no-auth":
            continue
        sc = sc[0]
        stats["wire_sessions"] += 1
        connected = [e for e in wire.signals(j, "connected")]
        sent_after = [e for e in wire.srv_rx(j) if e["tag"] in ("iq", "message", "presence")]
        w = dict(m, server_side=dict((k, sc.get(k)) for k in ("stage", "proof_ok", "nonce_echoed", "channel_binding_ok", "client_first", "client_final")),
                 client_signals=[(e["name"], e.get("text")) for e in j if e["ev"] == "cli_sig" and e["name"] in ("connected", "disconnected", "errorOccurred")],
                 stanzas_sent_after_authentication=[e.get("xml", "")[:200] for e in sent_after][:4])
        tag = "sasl2" if m["sasl2"] else "sasl1"
        if m["kind"] == "honest":
            if sc.get("proof_ok") is not True:
                viol.append(("wire proof-rejected-by-conforming-server %s %s" % (m["mechanism"], tag), "an independent server implementation holding the same password does not accept the client's proof", w))
            elif not connected:
                viol.append(("wire honest-login-fails %s %s" % (m["mechanism"], tag), "a correct SCRAM exchange did not end in a session", w))
            else:
                stats["wire_honest_connected"] += 1
        elif m["kind"] == "other-secret":
            if sc.get("proof_ok") is True:
                viol.append(("wire proof-accepted-for-other-secret %s" % m["mechanism"], "a server holding a different password accepts the client's proof", w))
            elif connected:
                viol.append(("wire connected-after-failure %s" % tag, "the client reports a session after the server answered <failure/>", w))
            else:
                stats["wire_other_secret_refused"] += 1
        else:
            stats["wire_by_variant"][m["variant"]] = stats["wire_by_variant"].get(m["variant"], 0) + 1
            if m["variant"] in ("extension-m", "short-nonce"):
                # the server does prove knowledge of the password in these two; whether an 'm=' extension or a nonce that adds nothing to the
                # client's must be refused is left open by the statement: recorded, not judged
                stats["wire_not_judged_" + ("refused" if not connected else "accepted")] = stats.get("wire_not_judged_" + ("refused" if not connected else "accepted"), 0) + 1
            elif connected or sent_after:
                viol.append(("wire session-with-unproven-server %s %s%s" % (m["variant"], tag, " same-packet" if m["follow_up_in_same_packet"] else ""),
                             "the client reports a session (or goes on sending stanzas) although the server never proved knowledge of the password", w))
            else:
                stats["wire_refused"] += 1
    return viol, stats, []


# ------------------------------------------------------------------------------------------------ FAST tokens over several sessions of one client

def fast_chain(A, B, replace, rotate):
    """session 1: password login, token requested (server offers A) and issued; [session 2: the application replaces the credentials by a token
    for mechanism B;] token login, the server rotates the token or not; last session: the client logs in with what it holds by then"""
    import wire
    NS2, NSF = "urn:xmpp:sasl:2", "urn:xmpp:fast:0"
    hta, htb = "HT-%s-NONE" % A, "HT-%s-NONE" % B

    def success(token=None):
        t = "<token xmlns='%s' expiry='2099-01-01T00:00:00Z' token='%s'/>" % (NSF, token) if token else ""
        return wire.S("<success xmlns='%s'><authorization-identifier>%s</authorization-identifier><bound xmlns='urn:xmpp:bind:0'/>%s</success>" % (NS2, wire.JID, t))

    def session(sid, fast_mechs, token_out, first=False, **conn):
        st = [] if first else [dict(op="connect", **conn)]
        st += [wire.A("stream:stream"), wire.S(wire.hdr(sid) + wire.features(wire.f_sasl2(mechs=["PLAIN"], bind2=True, fast=fast_mechs))), wire.A("authenticate", timeout=1500),
               success(token_out), wire.S(wire.features()), wire.A("iq", child="query", optional=True, timeout=400), wire.S("<iq type='result' id='$ID'><query xmlns='jabber:iq:roster'/></iq>", optional=True),
               dict(op="wait_signal", name="connected", timeout=1500), dict(op="fence"), dict(op="disconnect"), dict(op="wait_signal", name="disconnected")]
        return st
    steps = [wire.client(sasl2=True, userAgent=True, fast=True), dict(op="connect")] + session("f1", [hta], "tok-issued-1", first=True)
    expect = [("PLAIN", None, None)]
    held = (A, "tok-issued-1")
    if replace:
        steps += session("f2", [hta, htb], "tok-rotated-2" if rotate else None, jid=wire.JID, password=wire.PASSWORD, sasl2=True, userAgent=True, fast=True, disabled=[],
                         token={"mech": htb, "secret": "tok-from-app-2"})
        expect.append((htb, B, "tok-from-app-2"))
        held = (B, "tok-rotated-2") if rotate else (B, "tok-from-app-2")
    else:
        steps += session("f2", [hta, htb], "tok-rotated-2" if rotate else None, ownConfig=True)
        expect.append((hta, A, "tok-issued-1"))
        held = (A, "tok-rotated-2") if rotate else held
    steps += session("f3", [hta, htb], None, ownConfig=True)
    expect.append(("HT-%s-NONE" % held[0], held[0], held[1]))
    return dict(steps=steps, timeout=9000), expect


def fast_part(V, stats, tier):
    import wire
    from xml.dom import minidom
    binary = vf.build_harness("wire")
    hashes = ["SHA-256", "SHA3-512"] if tier == "quick" else ["SHA-256", "SHA-384", "SHA-512", "SHA3-256", "SHA3-512"]
    cases, metas = [], []
    for A in hashes:
        for B in hashes:
            for replace in (True, False):
                for rotate in (True, False):
                    if not replace and A != B:
                        continue
                    c, exp = fast_chain(A, B, replace, rotate)
                    cases.append(c)
                    metas.append((A, B, replace, rotate, exp))
    outs, crashes = wire.run_cases(binary, cases)
    for rq, info in crashes:
        V.violation("wire crash fast " + vf.crash_sig(info), "sanitizer report / abnormal exit of a client during FAST token logins", {"stderr": info["stderr"][-3000:]})
    for out, (A, B, replace, rotate, exp) in zip(outs, metas):
        if not out:
            continue
        j = out["journal"]
        auths = [e for e in wire.srv_rx(j) if e["tag"] == "authenticate"]
        w = {"token_requested_for": A, "application_replaces_credentials_by_token_for": B if replace else None, "server_rotates_token": rotate,
             "authenticate_elements": [e.get("xml", "")[:500] for e in auths], "expected": [(m, t) for m, _, t in exp]}
        if out["stalled"] >= 0 or len(auths) != len(exp):
            V.inconc("FAST chain A=%s B=%s replace=%s rotate=%s played %d of %d logins (stalled at %s)" % (A, B, replace, rotate, len(auths), len(exp), out["stalled"]))
            continue
        stats["fast_chains"] = stats.get("fast_chains", 0) + 1
        for k, (e, (mech, h, tok)) in enumerate(zip(auths, exp)):
            d = minidom.parseString(e["xml"].encode("utf8")).documentElement
            got_mech = d.getAttribute("mechanism")
            ir = d.getElementsByTagName("initial-response") or d.getElementsByTagNameNS("*", "initial-response")
            resp = base64.b64decode(ir[0].firstChild.data) if ir and ir[0].firstChild else b""
            if k == 0:
                rq_ = [x for x in d.getElementsByTagNameNS("urn:xmpp:fast:0", "request-token")]
                if got_mech != "PLAIN" or not rq_ or rq_[0].getAttribute("mechanism") != "HT-%s-NONE" % A:
                    V.violation("wire fast token-not-requested", "first login with FAST enabled and offered did not request a token for the offered mechanism", w)
                continue
            stats["fast_token_logins"] = stats.get("fast_token_logins", 0) + 1
            if got_mech != mech:
                V.violation("wire fast wrong-mechanism login-%d%s%s" % (k + 1, " after-replaced-credentials" if replace else "", " after-rotation" if rotate and k == 2 else ""),
                            "the token held for %s was used with %s: no conforming server accepts that" % (mech, got_mech), w)
            elif resp != pysasl.ht(h, "alice", tok):
                V.violation("wire fast wrong-response login-%d" % (k + 1), "the HT initial response is not authcid NUL HMAC(token, 'Initiator') for the token the client holds", dict(w, got=resp.hex(), want=pysasl.ht(h, "alice", tok).hex()))
            else:
                stats["fast_token_logins_ok"] = stats.get("fast_token_logins_ok", 0) + 1


def merge(a, b):
    for k, v in b.items():
        if isinstance(v, dict):
            merge(a.setdefault(k, {}), v)
        else:
            a[k] = a.get(k, 0) + v


def main(tier, replay=None):
    V = vf.Verdict("C06", tier)
    vf.build_harness("sasl")
    total = 5000 if tier == "quick" else 500000
    W = vf.NPROC
    with ProcessPoolExecutor(max_workers=W) as ex:
        res = list(ex.map(worker, [(w, total // W) for w in range(W)]))
        res += list(ex.map(wire_worker, [(w, (800 if tier == "quick" else 40000) // W) for w in range(W)]))
    stats, samples = {}, []
    for viol, st, sm in res:
        for sig, what, w in viol:
            V.violation(sig, what, w)
        merge(stats, st)
        samples += sm[:1]
    fast_part(V, stats, tier)
    cov = {"evaluations": stats["vectors"], "distinct_nontrivial": stats["rejections_checked"] + stats["honest_checked"],
           "rule": "Python-generated exchanges: SCRAM-SHA-1/-256/-512/SHA3-512 (honest + 15 corrupted server variants), DIGEST-MD5 as RFC 2831 server (honest + 5 variants), PLAIN, HT-*-NONE, "
                   "and 10 server message sequences through SaslManager/Sasl2Manager; credentials over printable Unicode on which SASLprep is the identity; random vectors are distinct with overwhelming probability; "
                   "distinct_nontrivial counts individual client messages compared with the reference plus individual refusals checked",
           "observed": stats, "samples": samples[:4] or [{"note": "see observed.by_kind"}]}
    floors = {"honest>0": stats["honest_checked"] > 0, "rejections>0": stats["rejections_checked"] > 0,
              "manager_sequences": stats["mgr_success_with_proof"] > 0 and stats["mgr_refused"] >= 0, "kinds>=20": len(stats["by_kind"]) >= 20,
              "wire_honest": stats.get("wire_honest_connected", 0) >= 100, "wire_refused": stats.get("wire_refused", 0) >= 100, "wire_variants": len(stats.get("wire_by_variant", {})) >= 10, "fast_token_logins_ok": stats.get("fast_token_logins_ok", 0) >= 10}
    cov["whole_client"] = ("real QXmppClient sessions (SASL and SASL2+bind2) against a scripted server that implements SCRAM-SHA-1/-256/-512/SHA3-512 itself with Qt's hash primitives: honest exchanges with random passwords, salts "
                           "and iteration counts (the server verifies the client proof), a server holding another password, and 12 misbehaving variants (wrong / foreign / empty signature, success without data, e= instead of v=, "
                           "success instead of a challenge, nonce not extending the client's, i=0, no salt, garbage iteration count, m= extension), each with the following features in a separate or in the same packet; "
                           "oracle: session reported <=> the server proved knowledge of the password")
    cov["fast_tokens"] = ("chains of three sessions of one client with FAST: password login requesting a token for mechanism A, a token login (with the stored token, or after the application replaced the credentials by a token for "
                          "mechanism B) in which the server rotates the token or not, and a login with whatever the client holds by then; every HT-* login must name the mechanism the held token was issued for and carry "
                          "authcid NUL HMAC(token, 'Initiator') (Python hmac)")
    V.finish(cov, "exploration", ["Python hashlib/hmac/pbkdf2/stringprep and our reading of RFC 5802/7677/2831/4616 and XEP-0484",
                                  "credentials restricted to strings on which SASLprep is the identity; DIGEST-MD5 credentials that RFC 2831 wants re-encoded as ISO 8859-1 are not judged (practice differs)"], floors)
