"""C10 — losing the connection at any point leaves a consistent client that can reconnect (engine: wire)"""
import collections, itertools, json, os, sys
from concurrent.futures import ProcessPoolExecutor
import vf, wire
from wire import S, A

NS_SM = wire.NS_SM
FAILED = "<failed xmlns='urn:xmpp:sm:3'><item-not-found xmlns='urn:ietf:params:xml:ns:xmpp-stanzas'/></failed>"
BIND_RESULT = "<iq type='result' id='$ID'><bind xmlns='%s'><jid>%s</jid></bind></iq>" % (wire.NS_BIND, wire.JID)
ROSTER_RESULT = "<iq type='result' id='$ID'><query xmlns='jabber:iq:roster'/></iq>"
SASL2_SUCCESS = "<success xmlns='urn:xmpp:sasl:2'><authorization-identifier>%s</authorization-identifier>%s</success>"
SEE_OTHER = "<stream:error><see-other-host xmlns='urn:ietf:params:xml:ns:xmpp-streams'>127.0.0.1:$PORT</see-other-host></stream:error>"


def script(name):
    """-> (client options, [protocol events], index of the event after which the session is established, resumable)
    protocol events are server-side steps: awaits (element received from the client) and sends"""
    if name in ("sasl-bind", "sasl-bind-session", "sasl-bind-sm", "sasl-bind-sm-resumable"):
        sm = "sm" in name
        ev = [A("stream:stream"), S(wire.hdr("s1") + wire.features(wire.f_mechs())), A("auth"), S("<success xmlns='%s'/>" % wire.NS_SASL, restart=True),
              A("stream:stream"), S(wire.hdr("s1b") + wire.features(wire.F_BIND, wire.F_SESSION if "session" in name else "", wire.F_SM if sm else "")),
              A("iq", child="bind", react={"resume": FAILED}), S(BIND_RESULT)]
        # (the client does not establish the deprecated RFC 3921 session even when it is offered)
        if sm:
            ev += [A("enable"), S("<enabled xmlns='%s' id='smid-$CONN'%s/>" % (NS_SM, " resume='true'" if "resumable" in name else ""), smOn=True)]
        return {}, ev, len(ev), "resumable" in name
    if name in ("sasl2-bind2", "sasl2-bind2-sm"):
        sm = name.endswith("sm")
        bound = "<bound xmlns='urn:xmpp:bind:0'>%s</bound>" % ("<enabled xmlns='%s' id='smid-$CONN' resume='true'/>" % NS_SM if sm else "")
        ev = [A("stream:stream"), S(wire.hdr("s1") + wire.features(wire.f_sasl2(("PLAIN",), bind2=True, sm=sm), wire.f_mechs())),
              A("authenticate"), S(SASL2_SUCCESS % (wire.JID, bound), smOn=sm), S(wire.features(wire.F_SM if sm else ""))]
        return {"sasl2": True, "userAgent": True}, ev, len(ev), sm
    if name == "legacy":
        ev = [A("stream:stream"), S(wire.hdr("s1") + wire.features(wire.F_LEGACY)), A("iq", child="query"),
              S("<iq type='result' id='$ID'><query xmlns='jabber:iq:auth'><username/><password/><digest/><resource/></query></iq>"), A("iq", child="query"), S("<iq type='result' id='$ID'/>")]
        return {"sasl": False, "nonsasl": True}, ev, len(ev), False
    if name == "redirect-before-auth":
        _, rest, k, _ = script("sasl-bind")
        ev = [A("stream:stream"), S(wire.hdr("s0") + SEE_OTHER), dict(op="await_accept", rel=1)] + rest
        return {}, ev, len(ev), False
    if name == "redirect-after-auth":
        _, rest, k, _ = script("sasl-bind")
        ev = [A("stream:stream"), S(wire.hdr("s1") + wire.features(wire.f_mechs())), A("auth"), S("<success xmlns='%s'/>" % wire.NS_SASL, restart=True),
              A("stream:stream"), S(wire.hdr("s1b") + SEE_OTHER), dict(op="await_accept", rel=1)] + rest
        return {}, ev, len(ev), False
    raise KeyError(name)


SCRIPTS = ["sasl-bind", "sasl-bind-session", "sasl-bind-sm", "sasl-bind-sm-resumable", "sasl2-bind2", "sasl2-bind2-sm", "legacy", "redirect-before-auth", "redirect-after-auth"]


def build(name, cuts, resume_mode="refuse"):
    """cuts: list of cut points for the attempts that get cut (each in [0, K]); a final clean attempt follows"""
    opts, ev, K, resumable = script(name)
    steps = [wire.client(**opts)]
    meta = []
    for attempt, k in enumerate(list(cuts) + [None]):
        steps.append(dict(op="mark", name="attempt-%d" % attempt))
        steps.append(dict(op="connect"))
        steps.append(dict(op="await_accept", rel=0))
        evs = [dict(e) for e in ev]
        for e in evs:
            if e.get("op") == "await":
                e["timeout"] = 1500
        upto = len(evs) if k is None else k
        steps.extend(evs[:upto])
        established = upto >= K
        if established:
            steps.append(dict(op="wait_signal", name="connected", timeout=1500))
            # the session is up: answer the roster request if the client makes one, then leave a request outstanding
            steps.append(A("iq", child="query", optional=True, timeout=300))
            steps.append(S(ROSTER_RESULT))
            steps.append(dict(op="sendIq", req="req-%d" % attempt, id="req-%d" % attempt, to="example.org"))
            steps.append(A("iq", child="ping", optional=True, timeout=500))
        if k is not None:
            if upto > 0 and "see-other-host" in evs[upto - 1].get("xml", ""):
                # the fault is meant for the connection the client uses: it has just been told to go elsewhere
                steps.append(dict(op="await_accept", rel=1, optional=True, timeout=1000))
            steps.append(dict(op="cut"))
            steps.append(dict(op="wait_signal", name="disconnected", optional=True, timeout=1500))
            steps.append(dict(op="settle", quiet=15))
            steps.append(dict(op="query", tag="after-cut-%d" % attempt))
        else:
            steps.append(dict(op="fence", sm=False))
            steps.append(dict(op="query", tag="final"))
        meta.append({"attempt": attempt, "cut": k, "established": established})
    steps.append(dict(op="mark", name="end"))
    steps.append(dict(op="destroy"))
    steps.append(dict(op="settle", quiet=5))
    return steps, meta, K, resumable


def judge(name, cuts, out, meta, K, resumable, viol, stats):
    j = out["journal"]
    w = {"script": name, "cut_points": list(cuts), "events_in_script": K}
    # split the journal by attempt
    att, cur = collections.defaultdict(list), -1
    for e in j:
        if e["ev"] == "mark" and e["name"].startswith("attempt-"):
            cur = int(e["name"].split("-")[1])
        elif e["ev"] == "mark" and e["name"] == "end":
            cur = 99
        att[cur].append(e)
    ever_resumable = False
    for m in meta:
        a, k = m["attempt"], m["cut"]
        evs = att.get(a, [])
        conn_sigs = [e for e in evs if e["ev"] == "cli_sig" and e["name"] == "connected"]
        stats["attempts"] += 1
        # V2: session reported at most once per connection and only after negotiation has finished
        if len(conn_sigs) > 1:
            viol.append(("connected-reported-twice script=%s" % name, "'connected' was emitted %d times for one connection attempt" % len(conn_sigs), dict(w, attempt=a)))
        if conn_sigs and not m["established"]:
            viol.append(("connected-before-negotiation-finished script=%s cut=%s" % (name, k), "'connected' was emitted although the server had only played %s of %d negotiation events" % (k, K), dict(w, attempt=a)))
        resumes = [e for e in evs if e["ev"] == "srv_rx" and e.get("tag") == "resume"]
        if resumes and not ever_resumable:
            viol.append(("resume-with-nothing-to-resume script=%s" % name, "the client asked to resume although no earlier attempt had got as far as a resumable stream-management session", dict(w, attempt=a)))
        if k is not None:
            q = next((e for e in evs if e["ev"] == "query" and e["tag"] == "after-cut-%d" % a), None)
            if q is None:
                return "no state query after cut"
            stats["cuts"] += 1
            if q["state"] != 0 or q["isConnected"]:
                viol.append(("not-disconnected-after-cut script=%s cut=%s" % (name, k), "after the connection dropped the client reports state=%s isConnected=%s" % (q["state"], q["isConnected"]), dict(w, attempt=a)))
            else:
                stats["disconnected_ok"] += 1
            if q.get("isAuthenticated"):
                viol.append(("authenticated-after-cut script=%s cut=%s" % (name, k), "isAuthenticated() is still true after the connection dropped", dict(w, attempt=a)))
            if m["established"]:
                dn = [e for e in evs if e["ev"] == "iq_done" and e["req"] == "req-%d" % a]
                if not (resumable and K > 0) and len(dn) != 1:
                    viol.append(("request-not-completed-after-cut script=%s" % name, "an outstanding request was neither completed nor is the session resumable (completions: %d)" % len(dn), dict(w, attempt=a)))
                elif len(dn) > 1:
                    viol.append(("request-completed-twice script=%s" % name, "an outstanding request completed %d times" % len(dn), dict(w, attempt=a)))
                else:
                    stats["requests_ok"] += 1
            if m["established"] and resumable:
                ever_resumable = True
        else:
            # the clean attempt must run the negotiation from the start and succeed
            fails = [e for e in evs if e["ev"] == "await_failed"]
            q = next((e for e in evs if e["ev"] == "query" and e["tag"] == "final"), None)
            if fails or not conn_sigs or q is None or q["state"] != 2:
                miss = fails[0]["tag"] if fails else "connected"
                viol.append(("reconnect-fails script=%s missing=%s" % (name, miss), "after the cuts a clean connection attempt did not run the negotiation to the end (missing: %s)" % miss,
                             dict(w, attempt=a, tail=[{k2: e.get(k2) for k2 in ("ev", "tag", "name", "xml", "text") if e.get(k2)} for e in evs if e["ev"] in ("srv_rx", "srv_tx", "cli_sig", "await_failed")][-12:])))
            else:
                stats["reconnect_ok"] += 1
    # "completes or retains (only when resumable)": a request retained across a resumable loss must be completed once a session is
    # established that is not a resumption of the one it was sent on (the server in these scripts always refuses <resume/>)
    for m in meta:
        if m["established"] and m["cut"] is not None and resumable:
            later = [m2["attempt"] for m2 in meta if m2["attempt"] > m["attempt"] and m2["established"]]
            if later:
                b = later[0]
                dn = [e for a2 in range(m["attempt"], b + 1) for e in att.get(a2, []) if e["ev"] == "iq_done" and e["req"] == "req-%d" % m["attempt"]]
                stats["retained_requests_followed"] += 1
                if not dn:
                    viol.append(("request-survives-into-new-session script=%s" % name, "a request retained across a resumable connection loss is still pending after a session was established that is not a resumption (resume refused, fresh bind)",
                                 dict(w, attempt=m["attempt"], new_session_attempt=b)))
    # every request completes exactly once by the end
    for m in meta:
        if m["established"]:
            dn = [e for e in j if e["ev"] == "iq_done" and e["req"] == "req-%d" % m["attempt"]]
            if len(dn) != 1:
                viol.append(("request-completions-%d script=%s" % (len(dn), name), "a request issued on an established session completed %d times in total" % len(dn), w))
    return None


def worker(args):
    wid, jobs = args
    binary = vf.build_harness("wire")
    cases, metas = [], []
    for (name, cuts) in jobs:
        steps, meta, K, resumable = build(name, cuts)
        cases.append(dict(steps=steps, timeout=2000, stopOnStall=False))
        metas.append((name, cuts, meta, K, resumable))
    outs, crashes = wire.run_cases(binary, cases)
    viol, stats, inconc = [], collections.Counter(), []
    for rq, info in crashes:
        viol.append(("crash " + vf.crash_sig(info), "sanitizer report / abnormal exit of the client around a connection loss", {"stderr": info["stderr"][-4000:]}))
    for idx_, (out, (name, cuts, meta, K, resumable)) in enumerate(zip(outs, metas)):
        if not out:
            continue
        stats["runs"] += 1
        def jf(j_, vv, ss, name=name, cuts=cuts, meta=meta, K=K, resumable=resumable):
            return judge(name, cuts, {"journal": j_}, meta, K, resumable, vv, ss)
        v_, st_, err = wire.judged(binary, cases[idx_], out, jf)
        viol += v_
        stats.update(st_)
        if err:
            inconc.append("%s %s: %s" % (name, cuts, err))
    return viol, dict(stats), inconc


def main(tier, replay=None):
    V = vf.Verdict("C10", tier)
    vf.build_harness("wire")
    jobs = []
    sizes = {}
    for name in SCRIPTS:
        K = script(name)[2]
        sizes[name] = K
        for k1 in range(K + 1):
            jobs.append((name, (k1,)))
            for k2 in range(K + 1):
                jobs.append((name, (k1, k2)))
    if tier != "quick":
        for name in ("sasl-bind-sm-resumable", "redirect-after-auth"):
            K = sizes[name]
            for t in itertools.product(range(K + 1), repeat=3):
                jobs.append((name, t))
    W = vf.NPROC
    with ProcessPoolExecutor(max_workers=W) as pool:
        res = list(pool.map(worker, [(w, jobs[w::W]) for w in range(W)]))
    stats = collections.Counter()
    for viol, st, inconc in res:
        for sig, what, w in viol:
            V.violation(sig, what, w)
        for i in inconc:
            V.inconc(i)
        stats.update(st)
    cov = {"evaluations": stats["runs"], "distinct_nontrivial": stats["reconnect_ok"],
           "rule": "9 protocol-conforming server scripts (%s) with K = %s protocol events; the server drops the TCP connection after each event k in [0,K] (and, once established, with a request outstanding), for one and for every pair (k1,k2) of "
                   "consecutive cut attempts%s, always followed by a clean attempt; after each cut the public state getters are read, 'connected' emissions are counted per attempt, and the clean attempt must answer every step of the script and end connected; "
                   "all runs are distinct (script, cut tuple)" % (", ".join(SCRIPTS), sizes, "" if tier == "quick" else ", plus all triples for the two longest scripts"),
           "exhaustive": True, "observed": dict(stats), "samples": [{"script": "sasl-bind-sm-resumable", "cuts": [3, 12]}]}
    floors = {"retained_requests_followed": stats["retained_requests_followed"] > 0, "runs": stats["runs"] > 500, "cuts": stats["cuts"] > 500, "reconnect_ok": stats["reconnect_ok"] > 0, "requests_ok": stats["requests_ok"] > 0}
    V.finish(cov, "fault_enumeration", ["the fault is a TCP reset/close by the server on loopback; half-open connections and timeouts are not injected", "a refused resumption is always followed by a fresh bind (accepted resumption is exercised in C07/C09/C12)"], floors)
