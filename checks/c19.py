"""C19 — a file transfer reported successful delivered exactly the bytes that were sent (engine: wire, relay mode)"""
import collections, hashlib, json, os, sys
from concurrent.futures import ProcessPoolExecutor
import vf, wire

A_J, B_J = "alice@example.org/res1", "bob@example.org/res1"
NOERROR = 0
FAULTS = ["drop", "duplicate", "swap", "flip", "earlyclose", "wrongsid", "wrongsender", "seq", "inject"]


def content(r, kind, n):
    if kind == "zeros":
        return bytes(n)
    if kind == "all":
        return bytes(i % 256 for i in range(n))
    return r.randbytes(n)


def build(data, block, fault=None, with_hash=True, sid="sid-1"):
    if isinstance(block, tuple):
        # the receiver lets the library write to a file path at which a (usually longer) file already exists
        _, inner, junk = block
        steps = build(data, inner, fault, with_hash, sid)
        for st in steps:
            if st.get("op") == "client" and st.get("c") == 1:
                st["recvToFile"] = junk
        return steps
    socks = block == "socks"
    if socks:
        # SOCKS5 bytestream, sender's own SOCKS5 server as the only stream host, reached through a tampering TCP hop
        steps = [wire.client(c=0, jid=A_J, managers=["transfer"], transferMethods="socks"), wire.client(c=1, jid=B_J, managers=["transfer"], transferMethods="any")]
        steps += wire.login_sasl(c=0, bind_jid=A_J) + wire.login_sasl(c=1, bind_jid=B_J)
        steps += [dict(op="wait_signal", name="connected", c=0), dict(op="wait_signal", name="connected", c=1), dict(op="settle", quiet=8)]
        steps.append(dict(op="sendFile", c=0, to=B_J, data=data.hex(), sid=sid, withHash=with_hash))
        steps.append(dict(op="route", timeout=4000, quiet=250, tamper=dict(fault or {}, socks=True, sid=sid)))
        steps.append(dict(op="wait_signal", name="recvJobFinished", c=1, optional=True, timeout=4000, fromSeq=0))
        steps.append(dict(op="wait_signal", name="sendJobFinished", c=0, optional=True, timeout=2000, fromSeq=0))
        steps.append(dict(op="settle", quiet=20))
        return steps
    steps = [wire.client(c=0, jid=A_J, managers=["transfer"], ibbBlockSize=block), wire.client(c=1, jid=B_J, managers=["transfer"], ibbBlockSize=block)]
    steps += wire.login_sasl(c=0, bind_jid=A_J) + wire.login_sasl(c=1, bind_jid=B_J)
    steps += [dict(op="wait_signal", name="connected", c=0), dict(op="wait_signal", name="connected", c=1), dict(op="settle", quiet=8)]
    steps.append(dict(op="sendFile", c=0, to=B_J, data=data.hex(), sid=sid, withHash=with_hash))
    tam = dict(fault or {})
    if tam:
        tam["sid"] = sid
    nblocks = (len(data) + block - 1) // block
    steps.append(dict(op="route", timeout=max(8000, nblocks * 4), quiet=150, tamper=tam, quietRx=nblocks > 200))
    steps.append(dict(op="settle", quiet=20))
    return steps


def judge(data, block, fault, with_hash, out, viol, stats):
    to_file = None
    if isinstance(block, tuple):
        to_file = block[2]
        block = block[1]
        stats["received_into_existing_file"] += 1
    j = out["journal"]
    rj = [e for e in j if e["ev"] == "cli_sig" and e["name"] == "recvJobFinished"]
    sj = [e for e in j if e["ev"] == "cli_sig" and e["name"] == "sendJobFinished"]
    injected = any(e["ev"] == "fault_injected" for e in j)
    socks = block == "socks"
    nblocks = 1 if socks else (len(data) + block - 1) // block
    if socks:
        stats["socks5_transfers"] += 1
        if any(e["ev"] == "socks_hop" for e in j):
            stats["socks5_through_hop"] += 1
    w = {"size": len(data), "destination": "file path with a %d byte file already there" % to_file if to_file is not None else "device", "block_size": block, "blocks": nblocks, "fault": fault, "hash_announced": with_hash, "sender": [(e["error"], e["state"]) for e in sj],
         "receiver": [(e["error"], e["state"], len(e["data"]) // 2) for e in rj], "content_sha1": hashlib.sha1(data).hexdigest()}
    stats["transfers"] += 1
    recv_ok = bool(rj) and rj[-1]["error"] == NOERROR
    send_ok = bool(sj) and sj[-1]["error"] == NOERROR
    got = bytes.fromhex(rj[-1]["data"]) if rj else None
    size_class = "blocks>65536" if nblocks > 65536 else ("blocks=65536" if nblocks == 65536 else ("empty" if len(data) == 0 else "small"))
    if len(rj) > 1 or len(sj) > 1:
        viol.append(("job-finished-twice", "a transfer job reported 'finished' more than once", w))
    if recv_ok and got != data:
        kind = (fault or {}).get("kind", "none")
        if kind == "flip" and not with_hash:
            stats[("socks5_" if socks else "ibb_") + "flip_without_hash_not_detectable"] += 1   # nothing in the protocol protects the content then: not judged
            return
        viol.append(("success-with-wrong-bytes%s%s fault=%s hash=%s" % (" socks5" if socks else "", " into-existing-file" if to_file is not None else "", kind, with_hash), "the receiver reports success but holds %d bytes that differ from the %d bytes sent" % (len(got), len(data)), w))
        return
    if not fault or not injected:
        if not fault:
            stats["fault_free"] += 1
        if not (recv_ok and send_ok and got == data):
            if len(data) == 0:
                stats["empty_file_not_transferred"] += 1   # an empty file is refused before any stream is opened: not judged
                return
            viol.append(("fault-free-transfer-fails %s%s" % ("socks5 " if socks else "", size_class), "a transfer over a healthy link did not end with both sides reporting success and identical bytes", w))
        else:
            stats["fault_free_ok"] += 1
            stats["class:" + size_class] += 1
            if socks:
                stats["socks5_fault_free_ok"] += 1
    else:
        stats["faulted"] += 1
        if not rj and (fault or {}).get("kind") in ("closebeforeopen", "bigblock", "earlyclose"):
            # the peer has closed the session: "the receiver does not report success but a corruption or protocol error" - it must report
            viol.append(("receiver-reports-nothing fault=%s" % fault["kind"], "the peer closed the in-band session before the content was complete and the receiver's job never finished (no error, no result)", w))
        elif recv_ok:
            stats["faulted_but_bytes_intact"] += 1   # e.g. a rejected duplicate: the bytes are right, success is acceptable
        else:
            stats["fault_detected"] += 1
            if socks:
                stats["socks5_fault_detected"] += 1


def worker(args):
    wid, jobs = args
    binary = vf.build_harness("wire")
    r = vf.rng("c19", wid)
    cases, metas = [], []
    for (size, block, ckind, fault, with_hash) in jobs:
        data = content(r, ckind, size)
        cases.append(dict(steps=build(data, block, fault, with_hash), timeout=5000))
        metas.append((data, block, fault, with_hash))
    outs, crashes = wire.run_cases(binary, cases, timeout=3600)
    viol, stats, inconc = [], collections.Counter(), []
    for rq, info in crashes:
        viol.append(("crash " + vf.crash_sig(info), "sanitizer report / abnormal exit during a file transfer", {"stderr": info["stderr"][-4000:]}))
    for out, (data, block, fault, with_hash) in zip(outs, metas):
        if not out:
            continue
        if out["stalled"] >= 0:
            inconc.append("setup stalled at step %s" % out["stalled"])
            continue
        judge(data, block, fault, with_hash, out, viol, stats)
    return viol, dict(stats), inconc


def main(tier, replay=None):
    V = vf.Verdict("C19", tier)
    vf.build_harness("wire")
    r = vf.rng("c19")
    jobs = []
    for b in (1, 7, 4096):
        for size in sorted(set([0, 1, b - 1, b, b + 1, 2 * b, 3 * b + 5])):
            if size < 0:
                continue
            for ck in ("zeros", "random", "all"):
                jobs.append((size, b, ck, None, True))
            jobs.append((size, b, "random", None, False))
    # counter boundary: more than 65536 blocks (block size 1)
    longs = [65535, 65536, 65537, 65538 + 300] if tier != "quick" else [65537]
    for size in longs:
        jobs.append((size, 1, "random", None, True))
    # every single fault at every position of short transfers
    for (size, b) in ((40, 7), (5, 1), (4096 * 3, 4096)) if tier == "quick" else ((40, 7), (5, 1), (9, 1), (4096 * 3, 4096), (100, 7), (20000, 4096)):
        nb = (size + b - 1) // b
        for kind in FAULTS:
            for at in range(nb):
                f = {"kind": kind, "at": at}
                if kind == "flip":
                    for bit in ((0, 7, 13) if tier == "quick" else range(0, min(b * 8, 64), 3)):
                        jobs.append((size, b, "random", dict(f, bit=bit), True))
                elif kind == "seq":
                    for sq in (0, at + 2, 65535):
                        if sq != at:
                            jobs.append((size, b, "random", dict(f, seq=sq), True))
                elif kind == "inject":
                    for frm in ("alice@example.org/other-resource", "alice@example.org", "mallory@example.org/evil"):
                        for wh in (True, False):
                            jobs.append((size, b, "random", dict(f, injectFrom=frm), wh))
                else:
                    jobs.append((size, b, "random", f, True))
                    if kind in ("drop", "earlyclose", "duplicate"):
                        jobs.append((size, b, "random", f, False))
    # the session is closed before it was opened / the open is refused and the sender gives up
    for size in (5, 5000):
        for kind in ("closebeforeopen", "bigblock"):
            for wh in (True, False):
                jobs.append((size, 4096, "random", {"kind": kind, "at": 0}, wh))
    # SOCKS5 bytestreams: fault-free matrix, then single faults in the byte stream behind the SOCKS5 negotiation
    for size in (1, 2, 4095, 4096, 4097, 65536, 200000) if tier == "quick" else (1, 2, 3, 100, 4095, 4096, 4097, 8192, 65535, 65536, 65537, 200000, 1048577):
        for ck in ("zeros", "random", "all"):
            jobs.append((size, "socks", ck, None, True))
        jobs.append((size, "socks", "random", None, False))
    for size in (1, 300, 70000) if tier == "quick" else (1, 2, 300, 5000, 70000, 300000):
        offs = sorted(set([0, size // 2, size - 1]))
        for kind in ("drop", "flip", "duplicate", "earlyclose", "append"):
            for at in offs:
                for wh in (True, False):
                    for ln in ((1,) if tier == "quick" else (1, 17)):
                        if kind == "earlyclose" and at == 0 and size == 1:
                            pass
                        jobs.append((size, "socks", "random", {"kind": kind, "at": at, "len": min(ln, size - at) if kind != "append" else ln, "bit": (at * 3) % 8}, wh))
    # destination = a file path (QXmppTransferJob::accept(path)) where a shorter / equal / longer file already exists
    for inner in (4096, "socks"):
        for size in (1, 100, 5000):
            for junk in (0, size, size + 1, 3 * size + 7):
                jobs.append((size, ("file", inner, junk), "random", None, True))
                jobs.append((size, ("file", inner, junk), "all", None, False))
    if tier != "quick":
        for _ in range(2000):
            size = r.choice([1, 10, 1000, 5000, 100000])
            at = r.randrange(size)
            jobs.append((size, "socks", "random", {"kind": r.choice(["drop", "flip", "duplicate", "earlyclose", "append"]), "at": at, "len": r.randrange(1, min(64, size - at) + 1), "bit": r.randrange(8)}, r.random() < 0.7))
    if tier != "quick":
        for _ in range(3000):
            b = r.choice([1, 3, 7, 64, 4096])
            size = r.randrange(1, b * 12)
            nb = (size + b - 1) // b
            kind = r.choice(FAULTS)
            f = {"kind": kind, "at": r.randrange(nb), "bit": r.randrange(64), "seq": r.randrange(65536), "injectFrom": r.choice(["alice@example.org/other-resource", "alice@example.org", "mallory@example.org/evil"])}
            jobs.append((size, b, "random", f, r.random() < 0.8))
    W = vf.NPROC
    # long transfers first so that they overlap with the short ones
    jobs.sort(key=lambda j: -j[0] // max(1, j[1] if isinstance(j[1], int) else 4096))
    with ProcessPoolExecutor(max_workers=W) as pool:
        res = list(pool.map(worker, [(w, jobs[w::W]) for w in range(W)]))
    stats = collections.Counter()
    for viol, st, inconc in res:
        for sig, what, w in viol:
            V.violation(sig, what, w)
        for i in inconc:
            V.inconc(i)
        stats.update(st)
    cov = {"evaluations": stats["transfers"], "distinct_nontrivial": stats["fault_free_ok"] + stats["fault_detected"] + stats["faulted_but_bytes_intact"],
           "rule": "in-band transfers between two real clients with QXmppTransferManager, relayed by the fake server: sizes {0,1,b-1,b,b+1,2b,3b+5} x block sizes {1,7,4096} x contents {zeros, random, all byte values} with and without "
                   "announced hash, transfers of more than 65536 blocks (block size 1), and every single fault (drop, duplicate, swap with next, bit flip, early close, wrong session id, wrong sender, wrong sequence number, an additional block with the right session id and sequence number but other bytes from another resource of the sender's account / its bare address / a stranger) at every block "
                   "position of short transfers; oracle: receiver success => identical bytes; fault-free => both sides succeed with identical bytes",
           "socks5": "SOCKS5 bytestream transfers (the sender's own SOCKS5 server as stream host, reached by the receiver through a tampering TCP hop the relay substitutes in the stream-host offer): fault-free size/content matrix "
                     "with and without hash; single faults in the payload behind the SOCKS5 negotiation (drop, bit flip, duplicate, early close, appended bytes) at offsets {0, middle, last}; a flipped bit without an announced hash is undetectable by design and not judged",
           "file_sink": "fault-free transfers (in-band and SOCKS5) accepted into a file path at which a file of 0 / size / size+1 / 3*size+7 bytes already exists; the file is read back from disk after the job finished",
           "fault_enumeration": "exhaustive per short transfer", "observed": dict(stats), "samples": [{"size": 40, "block_size": 7, "fault": {"kind": "swap", "at": 2}}]}
    floors = {"fault_free_ok": stats["fault_free_ok"] > 20, "faults": stats["faulted"] > 50, "wrap_case": stats["class:blocks>65536"] > 0, "socks5_fault_free": stats["socks5_fault_free_ok"] >= 20, "socks5_hop_used": stats["socks5_through_hop"] >= 20, "socks5_faults_detected": stats["socks5_fault_detected"] >= 10, "file_sinks": stats["received_into_existing_file"] >= 20}
    V.finish(cov, "fault_enumeration", ["block sizes other than 4096 need the QXMPP_VERIF_HOOKS setter (the manager has no public one)", "SOCKS5: direct stream hosts only (no XEP-0065 proxy service), both clients on this machine",
                                        "faults are applied to IBB <data/> stanzas by the relaying server"], floors)
