"""C07 — every request completes exactly once, and only by a reply from the entity asked (engine: wire)"""
import collections, itertools, json, os, sys
from concurrent.futures import ProcessPoolExecutor
import vf, wire

OWN, OWNFULL, DOMAIN = wire.BARE, wire.JID, "example.org"
TARGETS = {"none": None, "own-domain": DOMAIN, "own-bare": OWN, "contact-full": "bob@example.org/phone", "contact-bare": "bob@example.org", "muc": "room@conference.example.org"}


def effective_to(t):
    return OWN if t is None else t


def from_classes(t):
    """sender classes for a reply to a request addressed to t -> (from attr or None, class)"""
    e = effective_to(t)
    out = {"addressee": (e, "accept"), "absent": (None, "accept")}
    if "/" in e:
        out["bare-of-full"] = (e.split("/")[0], "reject")
    else:
        out["full-of-bare"] = (e + "/x", "reject")
    out["stranger"] = ("mallory@evil.example/x", "reject")
    out["lookalike"] = (e.replace("example.org", "example.org.evil.example") if "example.org" in e else "x" + e, "reject")
    out["case-variant"] = (e.upper() if e.upper() != e else e.lower(), "dontcare")
    if e == OWN:
        out["own-domain"] = (DOMAIN, "dontcare")
        out["own-full"] = (OWNFULL, "reject")
    if e != OWN:
        out["own-bare"] = (OWN, "reject")
    return out


class Req:
    def __init__(self, k, t, reenter):
        self.k, self.t, self.reenter = k, t, reenter
        self.id = "rq-%d" % k
        self.state = "pending"     # pending | done
        self.expected = None       # (segment, kind) once the model completes it
        self.dontcare_seg = None


def build(r, word, depth_label):
    """word: list of ops; returns steps, model info"""
    # the server may bind another resource than the one the client asked for (RFC 6120 7.7); the application keeps reconnecting with its own configuration
    bj = wire.JID if r.random() < 0.5 else "alice@example.org/assigned-by-server"
    steps = [wire.client()] + wire.login_sasl(sm=True, resumable=True, bind_jid=bj) + [dict(op="wait_signal", name="connected"), dict(op="fence", sm=True)]
    reqs = []
    seg = [0]
    connected, resumable_down = [True], [False]
    manual_ack = r.random() < 0.5
    events = [(0, ("bound-resource", bj.split("/")[1], "server-acks" if not manual_ack else "server-never-acks"))]   # (segment, description) for witnesses

    def mark():
        seg[0] += 1
        steps.append(dict(op="mark", name="seg-%d" % seg[0]))

    def fence():
        if connected[0]:
            steps.append(dict(op="fence", sm=True))
        else:
            steps.append(dict(op="settle", quiet=10))

    def cancel_all(kind="cancel"):
        for q in reqs:
            if q.state == "pending":
                q.state = "done"
                q.expected = (seg[0], "error")
        # nested requests issued by continuations are cancelled too (they are tracked separately)

    mark()
    for op in word:
        name = op[0]
        if not connected[0] and name in ("request", "reply", "cut", "disconnect"):
            continue
        events.append((seg[0], op))
        if name == "request":
            tclass, reenter = op[1], op[2] if len(op) > 2 else ""
            if len([q for q in reqs if q.state == "pending"]) >= 4:
                continue
            if not connected[0]:
                continue   # a request issued while disconnected may fail at once with a send error: not modelled
            q = Req(len(reqs), TARGETS[tclass], reenter)
            q.tclass = tclass
            reqs.append(q)
            st = dict(op="sendIq", req=q.id, id=q.id, type="get", payload="<query xmlns='jabber:iq:version'/>")
            if q.t is not None:
                st["to"] = q.t
            if reenter:
                st["reenter"] = reenter
            steps.append(st)
        elif name == "reply":
            kind, which, fclass = op[1], op[2], op[3]
            if not connected[0]:
                continue
            pending = [q for q in reqs if q.state == "pending"]
            if which == "unknown" or not pending:
                rid, q = "unknown-%d" % seg[0], None
                frm, cls = DOMAIN, "accept"
            else:
                q = pending[which % len(pending)] if isinstance(which, int) else pending[0]
                rid = q.id
                fc = from_classes(q.t)
                if fclass not in fc:
                    fclass = "addressee"
                frm, cls = fc[fclass]
            fa = "" if frm is None else " from='%s'" % frm
            if kind == "result":
                x = "<iq type='result' id='%s'%s><query xmlns='jabber:iq:version' marker='%s'><name>n</name></query></iq>" % (rid, fa, "mk-%d" % seg[0])
            elif kind == "error":
                x = "<iq type='error' id='%s'%s><error type='cancel'><item-not-found xmlns='urn:ietf:params:xml:ns:xmpp-stanzas'/></error></iq>" % (rid, fa)
            elif kind == "malformed":
                x = "<iq type='result' id='%s'%s><unexpected xmlns='urn:example:garbage'><deep><deeper/></deep></unexpected><second/></iq>" % (rid, fa)
            elif kind == "get":   # a *request* with the same id from someone: must not complete anything
                x = "<iq type='get' id='%s'%s><ping xmlns='urn:xmpp:ping'/></iq>" % (rid, fa)
                cls = "reject"
            steps.append(wire.S(x))
            if op[-1] == "twice":
                steps.append(wire.S(x))
            if q is not None:
                if cls == "accept":
                    q.state = "done"
                    q.expected = (seg[0], "error" if kind == "error" else "result")
                    if q.reenter == "disconnect":
                        # the continuation closes the session (not resumable): everything else is cancelled in this segment
                        cancel_all()
                        connected[0], resumable_down[0] = False, False
                elif cls == "dontcare":
                    q.dontcare_seg = (seg[0], "error" if kind == "error" else "result")
        elif name == "cut":
            if not connected[0]:
                continue
            steps.append(dict(op="cut"))
            steps.append(dict(op="wait_signal", name="disconnected"))
            connected[0], resumable_down[0] = False, True
        elif name == "disconnect":
            if not connected[0]:
                continue
            steps.append(dict(op="disconnect"))
            steps.append(dict(op="wait_signal", name="disconnected"))
            connected[0], resumable_down[0] = False, False
            cancel_all()
        elif name == "reconnect":
            if connected[0]:
                continue
            mode = op[1]
            if resumable_down[0] and mode == "resumed":
                steps.extend(wire.relogin(resume="accept", roster=False))
                steps.append(dict(op="wait_signal", name="connected"))
            else:
                if resumable_down[0]:
                    steps.extend(wire.relogin(resume="fail", roster=True, bind_jid=bj))
                else:
                    st = wire.relogin(resume="fail", roster=True, bind_jid=bj)
                    st = [s for s in st if not (s.get("op") == "await" and s.get("tag") == "resume") and "failed xmlns" not in s.get("xml", "")]
                    for s in st:
                        if s.get("op") == "await" and s.get("child") == "bind":
                            s["react"] = {"resume": "<failed xmlns='urn:xmpp:sm:3'><item-not-found xmlns='urn:ietf:params:xml:ns:xmpp-stanzas'/></failed>"}
                    steps.extend(st)
                # a client that does not continue the negotiation as the protocol says must not stall the history:
                # the request model decides (a request that should have been cancelled by the new session stays open)
                for s_ in steps:
                    if s_.get("op") == "await" and s_.get("tag") in ("iq", "enable") and not s_.get("_c07"):
                        pass
                k0 = len(steps) - 1
                while k0 > 0 and steps[k0].get("op") != "connect":
                    k0 -= 1
                for s_ in steps[k0:]:
                    if s_.get("op") == "await" and s_.get("tag") in ("iq", "enable"):
                        s_["optional"], s_["timeout"] = True, 400
                closes = any(q.state == "pending" and q.reenter == "disconnect" for q in reqs)
                if closes:
                    # opening the new session cancels the pending requests; one of their continuations closes the connection again
                    for s_ in steps[-4:]:
                        if s_.get("op") == "await" and s_.get("child") == "query":
                            s_["optional"], s_["timeout"] = True, 300
                    steps.append(dict(op="wait_signal", name="disconnected", optional=True, timeout=1000))
                    cancel_all()
                    connected[0], resumable_down[0] = False, False
                    fence()
                    mark()
                    continue
                steps.append(dict(op="wait_signal", name="connected", optional=True, timeout=500))
                cancel_all()
            connected[0], resumable_down[0] = True, False
        fence()
        mark()
    # close the history: a non-resumable end releases every obligation
    if connected[0]:
        steps.append(dict(op="disconnect"))
        steps.append(dict(op="wait_signal", name="disconnected"))
    else:
        steps.append(dict(op="destroy"))
    cancel_all()
    steps.append(dict(op="settle", quiet=10))
    mark()
    if manual_ack:
        # the server never acknowledges what the client sends: every request stays in the client's table of unacknowledged stanzas
        for s_ in steps:
            if s_.get("smOn"):
                s_["manualAck"] = True
    return steps, reqs, events


def judge(journal, reqs, events, viol, stats):
    # segment of each journal event
    segs, cur = {}, 0
    done = collections.defaultdict(list)
    for e in journal:
        if e["ev"] == "mark":
            cur = int(e["name"].split("-")[1])
        elif e["ev"] == "iq_done":
            done[e["req"]].append((cur, e))
    hist = [(s, list(o)) for s, o in events]
    for q in reqs:
        stats["requests"] += 1
        d = done.get(q.id, [])
        w = {"history": hist, "request": {"id": q.id, "to": q.t, "reenter": q.reenter}, "completions": [(s, {k: e.get(k) for k in ("kind", "from", "text", "count")}) for s, e in d],
             "model": q.expected, "dontcare": q.dontcare_seg}
        if len(d) == 0:
            viol.append(("never-completed to=%s%s" % (q.tclass, " re=" + q.reenter if q.reenter else ""), "a request was still pending after the session ended without possibility of resumption", w))
            continue
        if len(d) > 1 or d[0][1]["count"] != 1:
            viol.append(("completed-%d-times to=%s%s" % (len(d), q.tclass, " re=" + q.reenter if q.reenter else ""), "a request's continuation ran more than once", w))
            continue
        s, e = d[0]
        kind = "error" if e["kind"] == "error" else "result"
        exp = q.expected
        if q.dontcare_seg and (s, kind) == q.dontcare_seg and (exp is None or s <= exp[0]):
            stats["dontcare_followed"] += 1
            continue
        if exp is None:
            viol.append(("completed-unexpectedly", "request completed although the model has no completing event", w))
            continue
        if s < exp[0]:
            # completed earlier than by the event the model names: which event was in that segment?
            trig = [o for (sg, o) in events if sg == s - 1 or sg == s]
            fclass = next((o[3] for o in trig if o[0] == "reply"), None)
            if fclass is None:
                opn = next((o[0] for o in trig if o[0] != "request"), "?")
                viol.append(("completed-early trigger=%s to=%s" % (opn, q.tclass), "a request completed (or was cancelled) at a point where neither a matching reply nor a non-resumable session end had occurred", w))
            else:
                viol.append(("completed-by-wrong-sender from=%s to=%s" % (fclass, q.tclass), "a stanza from an entity other than the addressee (or the own server) completed or cancelled the request", w))
        elif s > exp[0] or kind != exp[1]:
            viol.append(("completion-mismatch exp=%s got=%s to=%s" % (exp[1], kind, q.tclass), "request completed in segment %d with %s, model says segment %d with %s" % (s, kind, exp[0], exp[1]), w))
        else:
            stats["completed_as_modelled"] += 1
            stats["kind:" + kind] += 1
    # nested requests issued from continuations: exactly once as well
    for rid, d in done.items():
        if rid.endswith("-nested"):
            stats["nested"] += 1
            if len(d) != 1:
                viol.append(("nested-completed-%d-times" % len(d), "a request issued from inside a continuation completed %d times" % len(d), {"history": hist}))
    calls = [e for e in journal if e["ev"] == "iq_call" and e["req"].endswith("-nested")]
    for c in calls:
        if c["req"] not in done:
            viol.append(("nested-never-completed", "a request issued from inside a continuation never completed", {"history": hist}))


def gen_word(r, n):
    w = []
    for _ in range(n):
        x = r.random()
        if x < 0.3:
            w.append(("request", r.choice(list(TARGETS)), r.choice(["", "", "", "sendIq", "disconnect"])))
        elif x < 0.8:
            w.append(("reply", r.choice(["result", "result", "error", "malformed", "get"]), r.choice([0, 1, 2, 3, "unknown"]),
                      r.choice(["addressee", "absent", "bare-of-full", "full-of-bare", "stranger", "lookalike", "case-variant", "own-domain", "own-full", "own-bare"]), r.choice(["once", "once", "twice"])))
        elif x < 0.88:
            w.append(("cut",))
        elif x < 0.92:
            w.append(("disconnect",))
        else:
            w.append(("reconnect", r.choice(["resumed", "new"])))
    return w


def alphabet():
    A = [("request", "none", ""), ("request", "contact-full", ""), ("request", "own-domain", "sendIq"), ("request", "contact-bare", "disconnect")]
    for fc in ("addressee", "absent", "stranger", "bare-of-full", "full-of-bare", "own-full"):
        A.append(("reply", "result", 0, fc, "once"))
    A += [("reply", "error", 1, "addressee", "twice"), ("reply", "result", "unknown", "addressee", "once"), ("cut",), ("disconnect",), ("reconnect", "resumed"), ("reconnect", "new")]
    return A


def worker(args):
    wid, nrandom, words = args
    binary = vf.build_harness("wire")
    r = vf.rng("c07", wid)
    cases, metas = [], []
    for wd in list(words) + [gen_word(r, r.choice([4, 8, 15, 30])) for _ in range(nrandom)]:
        steps, reqs, events = build(r, wd, None)
        cases.append(dict(steps=steps, timeout=4000))
        metas.append((reqs, events))
    outs, crashes = wire.run_cases(binary, cases)
    viol, stats, inconc = [], collections.Counter(), []
    for rq, info in crashes:
        viol.append(("crash " + vf.crash_sig(info), "sanitizer report / abnormal exit of the client while completing requests", {"steps": [s for s in rq.get("steps", []) if s.get("op") in ("sendIq", "send", "cut", "disconnect")][:40], "stderr": info["stderr"][-4000:]}))
    for idx_, (out, (reqs, events)) in enumerate(zip(outs, metas)):
        if not out:
            continue
        stats["histories"] += 1
        if out["stalled"] >= 0:
            fails = [e for e in out["journal"] if e["ev"] == "await_failed"]
            inconc.append("history stalled at step %s: %s" % (out["stalled"], fails[:1]))
            continue
        v_, st_, _ = wire.judged(binary, cases[idx_], out, lambda j_, vv, ss: judge(j_, reqs, events, vv, ss))
        viol += v_
        stats.update(st_)
    return viol, dict(stats), inconc


# ------------------------------------------------------------------------------------------------ manager-level requests

PUBSUB = "pubsub.example.org"
MGR_KINDS = {
    # kind: (managers to load, addressee the manager will use, namespace of a plausible result payload)
    "discoInfo": ([], "bob@example.org/phone", "http://jabber.org/protocol/disco#info"), "discoItems": ([], "conference.example.org", "http://jabber.org/protocol/disco#items"),
    "fetchVCard": ([], "bob@example.org", "vcard-temp"), "setVCard": ([], None, None), "entityTime": (["time"], "bob@example.org/phone", "urn:xmpp:time"),
    "mamRetrieve": (["mam"], None, "urn:xmpp:mam:2"), "blocklist": (["blocking"], None, "urn:xmpp:blocking"), "block": (["blocking"], None, None), "unblock": (["blocking"], None, None),
    "extServices": (["extdisco"], "example.org", "urn:xmpp:extdisco:2"), "rosterAdd": ([], None, None), "rosterRemove": ([], None, None), "rosterRename": ([], None, None),
    "uploadSlot": (["uploadrequest"], "upload.example.org", "urn:xmpp:http:upload:0"),
    "tuneRequest": (["pubsub", "tune"], "bob@example.org", "http://jabber.org/protocol/pubsub"), "locationRequest": (["pubsub", "location"], "bob@example.org", "http://jabber.org/protocol/pubsub"),
}
for k in ("psNodes", "psCreate", "psCreateInstant", "psDelete", "psItemIds", "psItems", "psItem", "psPublish", "psRetract", "psPurge", "psSubscriptions", "psAffiliations", "psNodeAffiliations", "psOptions",
          "psNodeConfig", "psSubscribe", "psUnsubscribe"):
    MGR_KINDS[k] = (["pubsub"], PUBSUB, "http://jabber.org/protocol/pubsub")
for k in ("mixChannelJids", "mixChannelNodes", "mixConfig", "mixInfo", "mixJoin", "mixLeave", "mixNick", "mixParticipants", "mixCreate", "mixDelete", "mixAllowed", "mixBan"):
    MGR_KINDS[k] = (["pubsub", "mix"], "channel@mix.example.org" if k not in ("mixChannelJids", "mixCreate") else "mix.example.org", "http://jabber.org/protocol/pubsub")


def mgr_payloads():
    """result payloads lifted from the corpus by namespace of the first child, plus generic ones"""
    from xml.dom import minidom
    out = collections.defaultdict(list)
    for l in open(os.path.join(vf.VERIF, "corpus", "seeds.jsonl")):
        o = json.loads(l)
        if o["root"] != "iq":
            continue
        try:
            d = minidom.parseString(o["xml"].encode("utf8")).documentElement
        except Exception:
            continue
        kids = [c for c in d.childNodes if c.nodeType == 1 and c.localName != "error"]
        if kids and len(out[kids[0].namespaceURI]) < 12:
            x = "".join(k.toxml() for k in kids)
            if len(x) < 4000:
                out[kids[0].namespaceURI].append(x)
    return out


def mgr_session(kind, scenario, payload):
    managers, to, ns = MGR_KINDS[kind]
    addressee = to or wire.BARE
    steps = [wire.client(managers=managers)] + wire.login_sasl(sm=False) + [dict(op="wait_signal", name="connected")]
    st = dict(op="mgr", kind=kind, rid="m1")
    if to:
        st["to"] = to
    steps.append(st)
    steps.append(wire.A("iq", optional=True, timeout=1500))

    def reply(frm, typ="result", body=payload):
        fa = "" if frm is None else " from='%s'" % frm
        if typ == "error":
            body = "<error type='cancel'><item-not-found xmlns='urn:ietf:params:xml:ns:xmpp-stanzas'/></error>"
        return wire.S("<iq type='%s' id='$ID'%s>%s</iq>" % (typ, fa, body))
    real_from = to if to else None     # requests to the own account are answered without from (or from the bare JID)
    steps.append(dict(op="mark", name="before"))
    if scenario == "result":
        steps.append(reply(real_from))
    elif scenario == "error":
        steps.append(reply(real_from, "error"))
    elif scenario == "twice":
        steps += [reply(real_from), reply(real_from)]
    elif scenario == "stranger-first":
        steps.append(reply("mallory@evil.example/x"))
        steps.append(dict(op="fence"))
        steps.append(dict(op="mark", name="after-stranger"))
        steps.append(reply(real_from))
    elif scenario == "lookalike-first":
        la = (addressee.split("/")[0] + ".evil.example") if "/" not in addressee else addressee.replace("example.org", "example.org.evil.example")
        steps.append(reply(la))
        steps.append(dict(op="fence"))
        steps.append(dict(op="mark", name="after-stranger"))
        steps.append(reply(real_from, "error"))
    elif scenario == "silence":
        pass
    steps.append(dict(op="fence"))
    # multi-step managers may have sent a follow-up request: the end of the session releases everything
    steps.append(dict(op="mark", name="closing"))
    steps.append(dict(op="disconnect"))
    steps.append(dict(op="wait_signal", name="disconnected"))
    steps.append(dict(op="settle", quiet=10))
    return dict(steps=steps, timeout=4000)


def mgr_sequence(kind, first, second, payload):
    """two requests of the same kind through one manager object: what the first one leaves behind (an error, a result, a lost session,
    a still outstanding twin) must not keep the second from completing"""
    managers, to, ns = MGR_KINDS[kind]
    steps = [wire.client(managers=managers)] + wire.login_sasl(sm=False) + [dict(op="wait_signal", name="connected")]
    real_from = to if to else None
    fa = "" if real_from is None else " from='%s'" % real_from
    err = "<error type='cancel'><item-not-found xmlns='urn:ietf:params:xml:ns:xmpp-stanzas'/></error>"

    def call(rid):
        st = dict(op="mgr", kind=kind, rid=rid)
        if to:
            st["to"] = to
        return st

    def answer(typ):
        # (the reply comes from wherever this request really went: multi-step managers talk to the own account first, then to the service)
        return wire.S("<iq type='%s' id='$ID'$FROMATTR>%s</iq>" % (typ, payload if typ == "result" else err), optional=True)
    steps.append(dict(op="mark", name="first"))
    steps.append(call("m1"))
    if first == "concurrent":
        # both outstanding at once; every request the client really sends is answered
        steps.append(call("m2"))
        steps += [wire.A("iq", optional=True, timeout=800), answer(second), wire.A("iq", optional=True, timeout=300), answer(second), dict(op="fence")]
    else:
        steps.append(wire.A("iq", optional=True, timeout=1500))
        if first in ("result", "error"):
            steps += [answer(first), dict(op="fence")]
        elif first == "lost-session":
            # silence, then the session ends and a new one is opened with the same client object
            steps += [dict(op="fence"), dict(op="disconnect"), dict(op="wait_signal", name="disconnected")]
            steps += [s_ for s_ in wire.login_sasl(sm=False, sid="s2")] + [dict(op="wait_signal", name="connected")]
        steps.append(dict(op="mark", name="second"))
        steps.append(call("m2"))
        steps += [wire.A("iq", optional=True, timeout=800), answer(second), dict(op="fence")]
    steps.append(dict(op="mark", name="closing"))
    steps += [dict(op="disconnect"), dict(op="wait_signal", name="disconnected"), dict(op="settle", quiet=10)]
    return dict(steps=steps, timeout=5000)


def mgr_seq_worker(args):
    wid, jobs = args
    binary = vf.build_harness("wire")
    outs, crashes = wire.run_cases(binary, [mgr_sequence(*j) for j in jobs])
    viol, stats, inconc = [], collections.Counter(), []
    for rq, info in crashes:
        j = jobs[rq["n"]] if rq.get("n") is not None else ("?", "?", "?", "")
        viol.append(("manager crash %s %s" % (j[0], vf.crash_sig(info)), "sanitizer report / abnormal exit in a sequence of two manager requests", {"kind": j[0], "first": j[1], "second": j[2], "stderr": info["stderr"][-3000:]}))
    for out, (kind, first, second, payload) in zip(outs, jobs):
        if not out:
            continue
        j = out["journal"]
        calls = [e for e in j if e["ev"] == "mgr_call"]
        if len(calls) < 2 or any(e["ev"] == "bad_step" for e in j) or out["stalled"] >= 0:
            inconc.append("manager sequence %s/%s was not played to the end: %s" % (kind, first, [e for e in j if e["ev"] in ("bad_step", "await_failed")][:2]))
            continue
        stats["manager_sequences"] += 1
        seg, dones = "start", collections.defaultdict(list)
        for e in j:
            if e["ev"] == "mark":
                seg = e["name"]
            elif e["ev"] == "mgr_done":
                dones[e["rid"]].append((seg, e))
        w = {"kind": kind, "first_request": first, "second_answered_with": second, "payload": payload[:800],
             "completions": {rid: [(s_, {k: e.get(k) for k in ("count", "outcome", "text")}) for s_, e in d] for rid, d in dones.items()},
             "client_sent": [e.get("xml", "")[:300] for e in wire.srv_rx(j) if e["tag"] == "iq"][:8]}
        for rid in ("m1", "m2"):
            d = dones.get(rid, [])
            if not d:
                viol.append(("manager never-completed %s %s-of-two after-%s" % (kind, "first" if rid == "m1" else "second", first), "a manager request was still pending after the client disconnected for good", w))
            elif len(d) > 1 or d[0][1]["count"] != 1:
                viol.append(("manager completed-%d-times %s" % (len(d), kind), "the task of a manager request finished more than once", w))
            elif rid == "m2" and d[0][0] == "closing":
                # the second request was answered (or needed no answer) before the session was closed: it must not wait for the disconnect
                sent = [e for e in wire.srv_rx(j) if e["tag"] == "iq" and e.get("type") in ("get", "set")]
                viol.append(("manager second-request-stuck %s after-%s" % (kind, first), "the second of two requests through the same manager completed only when the client disconnected (requests on the wire: %d)" % len(sent), w))
            else:
                stats["manager_sequence_requests_ok"] += 1
    return viol, dict(stats), inconc


def mgr_worker(args):
    wid, jobs = args
    binary = vf.build_harness("wire")
    outs, crashes = wire.run_cases(binary, [mgr_session(*j) for j in jobs])
    viol, stats, inconc = [], collections.Counter(), []
    for rq, info in crashes:
        j = jobs[rq["n"]] if rq.get("n") is not None else ("?", "?", "")
        viol.append(("manager crash %s %s" % (j[0], vf.crash_sig(info)), "sanitizer report / abnormal exit while a manager request was answered", {"kind": j[0], "scenario": j[1], "payload": j[2][:3000], "stderr": info["stderr"][-3000:]}))
    for out, (kind, scenario, payload) in zip(outs, jobs):
        if not out:
            continue
        j = out["journal"]
        if not any(e["ev"] == "mgr_call" for e in j) or any(e["ev"] == "bad_step" for e in j):
            inconc.append("manager request %s was not issued: %s" % (kind, [e for e in j if e["ev"] in ("bad_step", "await_failed")][:2]))
            continue
        stats["manager_requests"] += 1
        seg, dones = "start", []
        for e in j:
            if e["ev"] == "mark":
                seg = e["name"]
            elif e["ev"] == "mgr_done":
                dones.append((seg, e))
        w = {"kind": kind, "scenario": scenario, "payload": payload[:1500], "completions": [(s_, {k: e.get(k) for k in ("count", "outcome", "text")}) for s_, e in dones],
             "client_sent": [e.get("xml", "")[:300] for e in wire.srv_rx(j) if e["tag"] == "iq"][:6]}
        if not dones:
            viol.append(("manager never-completed %s %s" % (kind, scenario), "a manager request was still pending after the client disconnected for good", w))
        elif len(dones) > 1 or dones[0][1]["count"] != 1:
            viol.append(("manager completed-%d-times %s" % (len(dones), kind), "the task of a manager request finished more than once", w))
        elif scenario in ("stranger-first", "lookalike-first") and dones[0][0] == "before":
            viol.append(("manager completed-by-wrong-sender %s %s" % (kind, scenario), "a reply from an entity other than the addressee finished a manager request", w))
        else:
            stats["manager_completed_once"] += 1
            stats["manager_outcome:" + dones[0][1]["outcome"]] += 1
            if dones[0][0] in ("before", "after-stranger"):
                stats["manager_completed_by_reply"] += 1
    return viol, dict(stats), inconc


RPC_PAYLOADS = {
    "value": "<query xmlns='jabber:iq:rpc'><methodResponse><params><param><value><i4>7</i4></value></param></params></methodResponse></query>",
    "two-values": "<query xmlns='jabber:iq:rpc'><methodResponse><params><param><value><string>a</string></value></param><param><value><i4>2</i4></value></param></params></methodResponse></query>",
    "empty-params": "<query xmlns='jabber:iq:rpc'><methodResponse><params/></methodResponse></query>",
    "no-params": "<query xmlns='jabber:iq:rpc'><methodResponse/></query>",
    "fault": "<query xmlns='jabber:iq:rpc'><methodResponse><fault><value><struct><member><name>faultCode</name><value><int>4</int></value></member><member><name>faultString</name><value><string>Too many</string></value></member></struct></value></fault></methodResponse></query>",
    "empty-query": "<query xmlns='jabber:iq:rpc'/>",
    "garbage-value": "<query xmlns='jabber:iq:rpc'><methodResponse><params><param><value><i4>not-a-number</i4></value></param><param/></params></methodResponse></query>",
    "nested-struct": "<query xmlns='jabber:iq:rpc'><methodResponse><params><param><value><array><data><value><struct><member><name>k</name><value><base64>!!!</base64></value></member></struct></value></data></array></value></param></params></methodResponse></query>",
}


def rpc_part(V, stats):
    """the blocking XML-RPC call (nested event loop in the library), answered from inside the server's reader"""
    binary = vf.build_harness("wire")
    cases, names = [], []
    for name, payload in RPC_PAYLOADS.items():
        for typ in ("result", "error"):
            body = payload if typ == "result" else payload + "<error type='cancel'><item-not-found xmlns='urn:ietf:params:xml:ns:xmpp-stanzas'/></error>"
            steps = [wire.client(managers=["rpc"])] + wire.login_sasl(sm=False) + [dict(op="wait_signal", name="connected"),
                     dict(op="autoreply", childns="jabber:iq:rpc", xml="<iq type='%s' id='$ID' from='responder@example.org/rpc'>%s</iq>" % (typ, body)),
                     dict(op="rpcCall", timeout=3000), dict(op="fence")]
            cases.append(dict(steps=steps, timeout=4000))
            names.append("%s/%s" % (name, typ))
    outs, crashes = wire.run_cases(binary, cases)
    for rq, info in crashes:
        nm = names[rq["n"]] if rq.get("n") is not None else "?"
        V.violation("manager crash rpcCall %s" % vf.crash_sig(info), "sanitizer report / abnormal exit while a blocking XML-RPC call was answered (%s)" % nm, {"answer": nm, "stderr": info["stderr"][-3000:]})
    for out, nm in zip(outs, names):
        if not out:
            continue
        dones = [e for e in out["journal"] if e["ev"] == "rpc_done"]
        stats["rpc_calls"] += 1
        if len(dones) != 1:
            V.violation("manager rpcCall returned-%d-times" % len(dones), "a blocking XML-RPC call did not return exactly once", {"answer": nm})
        elif any(e["ev"] == "fence_done" for e in out["journal"]):
            stats["rpc_calls_returned_and_client_alive"] += 1


def manager_part(V, tier):
    r = vf.rng("c07-mgr")
    pay = mgr_payloads()
    jobs = []
    scen = ["result", "error", "twice", "stranger-first", "lookalike-first", "silence"]
    for kind, (_, to, ns) in MGR_KINDS.items():
        cands = ["", "<unknown xmlns='urn:example:unknown'><x/></unknown>"] + pay.get(ns, [])
        if ns == "urn:xmpp:mam:2":
            cands.append("<fin xmlns='urn:xmpp:mam:2' complete='true'><set xmlns='http://jabber.org/protocol/rsm'><count>0</count></set></fin>")
        for sc in scen:
            ps = cands if sc in ("result", "stranger-first") and tier != "quick" else [r.choice(cands)] + ([cands[-1]] if sc == "result" and len(cands) > 2 else [])
            for p in ps:
                jobs.append((kind, sc, p))
    W = vf.NPROC
    with ProcessPoolExecutor(max_workers=W) as pool:
        res = list(pool.map(mgr_worker, [(w, jobs[w::W]) for w in range(W)]))
    stats = collections.Counter()
    for viol, st, inconc in res:
        for sig, what, w in viol:
            V.violation(sig, what, w)
        for i in inconc:
            V.inconc(i)
        stats.update(st)
    # sequences of two requests through the same manager object
    sj = []
    for kind, (_, to, ns) in MGR_KINDS.items():
        cands = pay.get(ns, []) or [""]
        for first in ("result", "error", "lost-session", "concurrent"):
            for second in (("result", "error") if tier != "quick" or first == "error" else ("result",)):
                sj.append((kind, first, second, r.choice(cands)))
    with ProcessPoolExecutor(max_workers=W) as pool:
        res = list(pool.map(mgr_seq_worker, [(w, sj[w::W]) for w in range(W)]))
    for viol, st, inconc in res:
        for sig, what, w in viol:
            V.violation(sig, what, w)
        for i in inconc:
            V.inconc(i)
        stats.update(st)
    stats["manager_kinds"] = len(MGR_KINDS)
    rpc_part(V, stats)
    return stats


def main(tier, replay=None):
    V = vf.Verdict("C07", tier)
    vf.build_harness("wire")
    W = vf.NPROC
    A = alphabet()
    depth = 3 if tier == "quick" else 4
    words = []
    for d in range(1, depth + 1):
        for w in itertools.product(A, repeat=d):
            if w[0][0] != "request":
                continue   # a history without a first request has nothing to judge
            words.append(list(w))
    nrandom = (20000 if tier == "quick" else 300000) // W
    with ProcessPoolExecutor(max_workers=W) as pool:
        res = list(pool.map(worker, [(w, nrandom, words[w::W]) for w in range(W)]))
    stats = collections.Counter()
    for viol, st, inconc in res:
        for sig, what, w in viol:
            V.violation(sig, what, w)
        for i in inconc:
            V.inconc(i)
        stats.update(st)
    stats.update(manager_part(V, tier))
    cov = {"evaluations": stats["requests"] + stats["manager_requests"], "distinct_nontrivial": stats["completed_as_modelled"] + stats["manager_completed_once"],
           "manager_level": "%d task-returning manager APIs (discovery, vCard, entity time, MAM, blocking, external services, roster edits, upload slots, 18 pubsub, 12 MIX, PEP tune/location) x {result with payloads lifted from the corpus / generic / empty, "
                            "error, duplicate reply, reply from a stranger or a look-alike domain first, silence} ; every session ends with a final disconnect; oracle: the task finishes exactly once, never on the foreign reply" % len(MGR_KINDS),
           "rule": "histories over {request(6 addressee classes, optionally re-entering the client from its continuation: new request / disconnect), reply(result|error|malformed|request-with-same-id, outstanding or unknown id, 10 sender classes, once/twice), "
                   "connection loss (resumable), disconnect, reconnect (resumed|new)} with up to 4 requests outstanding: exhaustive words of length <= %d starting with a request over an %d-letter alphabet, plus random words up to length 30; "
                   "every history ends with a non-resumable close; each request's continuation count and value are compared with a request model with accept sets (addressee, absent from) and don't-care classes (case variants, own domain for own account)" % (depth, len(A)),
           "observed": dict(stats), "exhaustive_words": len(words), "samples": [{"word": [list(x) for x in words[min(len(words) - 1, 700)]]}]}
    floors = {"requests": stats["requests"] > 1000, "results": stats["kind:result"] > 0, "errors": stats["kind:error"] > 0, "nested": stats["nested"] > 0, "manager_requests": stats["manager_requests"] >= 200, "manager_by_reply": stats["manager_completed_by_reply"] >= 100, "rpc": stats["rpc_calls_returned_and_client_alive"] >= 10}
    V.finish(cov, "exploration", ["a stanza without from is taken to come from the user's own server (a contact cannot forge that)", "loopback TCP with fences; manager request APIs are covered by the second part when present"], floors)
