"""C07 — every request completes exactly once, and only by a reply from the entity asked (engine: wire)"""
import collections, itertools, json, os, sys
from concurrent.futures import ProcessPoolExecutor
import vf, wire

OWN, OWNFULL, DOMAIN = wire.BARE, wire.JID, "example.org"
TARGETS = {"none": None, "own-domain": DOMAIN, "own-bare": OWN, "contact-full": "bob@example.org/phone", "contact-bare": "bob@example.org", "muc": "room@conference.example.org"}


def effective_to(t):
    return OWN if t is None else t


def from_classes(t):
    """sender classes for a reply to a request addressed to t -> (from attr or None, class)"""
    e = effective_to(t)
    out = {"addressee": (e, "accept"), "absent": (None, "accept")}
    if "/" in e:
        out["bare-of-full"] = (e.split("/")[0], "reject")
    else:
        out["full-of-bare"] = (e + "/x", "reject")
    out["stranger"] = ("mallory@evil.example/x", "reject")
    out["lookalike"] = (e.replace("example.org", "example.org.evil.example") if "example.org" in e else "x" + e, "reject")
    out["case-variant"] = (e.upper() if e.upper() != e else e.lower(), "dontcare")
    if e == OWN:
        out["own-domain"] = (DOMAIN, "dontcare")
        out["own-full"] = (OWNFULL, "reject")
    if e != OWN:
        out["own-bare"] = (OWN, "reject")
    return out


class Req:
    def __init__(self, k, t, reenter):
        self.k, self.t, self.reenter = k, t, reenter
        self.id = "rq-%d" % k
        self.state = "pending"     # pending | done
        self.expected = None       # (segment, kind) once the model completes it
        self.dontcare_seg = None


def build(r, word, depth_label):
    """word: list of ops; returns steps, model info"""
    steps = [wire.client()] + wire.login_sasl(sm=True, resumable=True) + [dict(op="wait_signal", name="connected"), dict(op="fence", sm=True)]
    reqs = []
    seg = [0]
    connected, resumable_down = [True], [False]
    events = []   # (segment, description) for witnesses

    def mark():
        seg[0] += 1
        steps.append(dict(op="mark", name="seg-%d" % seg[0]))

    def fence():
        if connected[0]:
            steps.append(dict(op="fence", sm=True))
        else:
            steps.append(dict(op="settle", quiet=10))

    def cancel_all(kind="cancel"):
        for q in reqs:
            if q.state == "pending":
                q.state = "done"
                q.expected = (seg[0], "error")
        # nested requests issued by continuations are cancelled too (they are tracked separately)

    mark()
    for op in word:
        name = op[0]
        if not connected[0] and name in ("request", "reply", "cut", "disconnect"):
            continue
        events.append((seg[0], op))
        if name == "request":
            tclass, reenter = op[1], op[2] if len(op) > 2 else ""
            if len([q for q in reqs if q.state == "pending"]) >= 4:
                continue
            if not connected[0]:
                continue   # a request issued while disconnected may fail at once with a send error: not modelled
            q = Req(len(reqs), TARGETS[tclass], reenter)
            q.tclass = tclass
            reqs.append(q)
            st = dict(op="sendIq", req=q.id, id=q.id, type="get", payload="<query xmlns='jabber:iq:version'/>")
            if q.t is not None:
                st["to"] = q.t
            if reenter:
                st["reenter"] = reenter
            steps.append(st)
        elif name == "reply":
            kind, which, fclass = op[1], op[2], op[3]
            if not connected[0]:
                continue
            pending = [q for q in reqs if q.state == "pending"]
            if which == "unknown" or not pending:
                rid, q = "unknown-%d" % seg[0], None
                frm, cls = DOMAIN, "accept"
            else:
                q = pending[which % len(pending)] if isinstance(which, int) else pending[0]
                rid = q.id
                fc = from_classes(q.t)
                if fclass not in fc:
                    fclass = "addressee"
                frm, cls = fc[fclass]
            fa = "" if frm is None else " from='%s'" % frm
            if kind == "result":
                x = "<iq type='result' id='%s'%s><query xmlns='jabber:iq:version' marker='%s'><name>n</name></query></iq>" % (rid, fa, "mk-%d" % seg[0])
            elif kind == "error":
                x = "<iq type='error' id='%s'%s><error type='cancel'><item-not-found xmlns='urn:ietf:params:xml:ns:xmpp-stanzas'/></error></iq>" % (rid, fa)
            elif kind == "malformed":
                x = "<iq type='result' id='%s'%s><unexpected xmlns='urn:example:garbage'><deep><deeper/></deep></unexpected><second/></iq>" % (rid, fa)
            elif kind == "get":   # a *request* with the same id from someone: must not complete anything
                x = "<iq type='get' id='%s'%s><ping xmlns='urn:xmpp:ping'/></iq>" % (rid, fa)
                cls = "reject"
            steps.append(wire.S(x))
            if op[-1] == "twice":
                steps.append(wire.S(x))
            if q is not None:
                if cls == "accept":
                    q.state = "done"
                    q.expected = (seg[0], "error" if kind == "error" else "result")
                    if q.reenter == "disconnect":
                        # the continuation closes the session (not resumable): everything else is cancelled in this segment
                        cancel_all()
                        connected[0], resumable_down[0] = False, False
                elif cls == "dontcare":
                    q.dontcare_seg = (seg[0], "error" if kind == "error" else "result")
        elif name == "cut":
            if not connected[0]:
                continue
            steps.append(dict(op="cut"))
            steps.append(dict(op="wait_signal", name="disconnected"))
            connected[0], resumable_down[0] = False, True
        elif name == "disconnect":
            if not connected[0]:
                continue
            steps.append(dict(op="disconnect"))
            steps.append(dict(op="wait_signal", name="disconnected"))
            connected[0], resumable_down[0] = False, False
            cancel_all()
        elif name == "reconnect":
            if connected[0]:
                continue
            mode = op[1]
            if resumable_down[0] and mode == "resumed":
                steps.extend(wire.relogin(resume="accept", roster=False))
                steps.append(dict(op="wait_signal", name="connected"))
            else:
                if resumable_down[0]:
                    steps.extend(wire.relogin(resume="fail", roster=True))
                else:
                    st = wire.relogin(resume="fail", roster=True)
                    st = [s for s in st if not (s.get("op") == "await" and s.get("tag") == "resume") and "failed xmlns" not in s.get("xml", "")]
                    for s in st:
                        if s.get("op") == "await" and s.get("child") == "bind":
                            s["react"] = {"resume": "<failed xmlns='urn:xmpp:sm:3'><item-not-found xmlns='urn:ietf:params:xml:ns:xmpp-stanzas'/></failed>"}
                    steps.extend(st)
                # a client that does not continue the negotiation as the protocol says must not stall the history:
                # the request model decides (a request that should have been cancelled by the new session stays open)
                for s_ in steps:
                    if s_.get("op") == "await" and s_.get("tag") in ("iq", "enable") and not s_.get("_c07"):
                        pass
                k0 = len(steps) - 1
                while k0 > 0 and steps[k0].get("op") != "connect":
                    k0 -= 1
                for s_ in steps[k0:]:
                    if s_.get("op") == "await" and s_.get("tag") in ("iq", "enable"):
                        s_["optional"], s_["timeout"] = True, 400
                closes = any(q.state == "pending" and q.reenter == "disconnect" for q in reqs)
                if closes:
                    # opening the new session cancels the pending requests; one of their continuations closes the connection again
                    for s_ in steps[-4:]:
                        if s_.get("op") == "await" and s_.get("child") == "query":
                            s_["optional"], s_["timeout"] = True, 300
                    steps.append(dict(op="wait_signal", name="disconnected", optional=True, timeout=1000))
                    cancel_all()
                    connected[0], resumable_down[0] = False, False
                    fence()
                    mark()
                    continue
                steps.append(dict(op="wait_signal", name="connected", optional=True, timeout=500))
                cancel_all()
            connected[0], resumable_down[0] = True, False
        fence()
        mark()
    # close the history: a non-resumable end releases every obligation
    if connected[0]:
        steps.append(dict(op="disconnect"))
        steps.append(dict(op="wait_signal", name="disconnected"))
    else:
        steps.append(dict(op="destroy"))
    cancel_all()
    steps.append(dict(op="settle", quiet=10))
    mark()
    return steps, reqs, events


def judge(journal, reqs, events, viol, stats):
    # segment of each journal event
    segs, cur = {}, 0
    done = collections.defaultdict(list)
    for e in journal:
        if e["ev"] == "mark":
            cur = int(e["name"].split("-")[1])
        elif e["ev"] == "iq_done":
            done[e["req"]].append((cur, e))
    hist = [(s, list(o)) for s, o in events]
    for q in reqs:
        stats["requests"] += 1
        d = done.get(q.id, [])
        w = {"history": hist, "request": {"id": q.id, "to": q.t, "reenter": q.reenter}, "completions": [(s, {k: e.get(k) for k in ("kind", "from", "text", "count")}) for s, e in d],
             "model": q.expected, "dontcare": q.dontcare_seg}
        if len(d) == 0:
            viol.append(("never-completed to=%s%s" % (q.tclass, " re=" + q.reenter if q.reenter else ""), "a request was still pending after the session ended without possibility of resumption", w))
            continue
        if len(d) > 1 or d[0][1]["count"] != 1:
            viol.append(("completed-%d-times to=%s%s" % (len(d), q.tclass, " re=" + q.reenter if q.reenter else ""), "a request's continuation ran more than once", w))
            continue
        s, e = d[0]
        kind = "error" if e["kind"] == "error" else "result"
        exp = q.expected
        if q.dontcare_seg and (s, kind) == q.dontcare_seg and (exp is None or s <= exp[0]):
            stats["dontcare_followed"] += 1
            continue
        if exp is None:
            viol.append(("completed-unexpectedly", "request completed although the model has no completing event", w))
            continue
        if s < exp[0]:
            # completed earlier than by the event the model names: which event was in that segment?
            trig = [o for (sg, o) in events if sg == s - 1 or sg == s]
            fclass = next((o[3] for o in trig if o[0] == "reply"), None)
            if fclass is None:
                opn = next((o[0] for o in trig if o[0] != "request"), "?")
                viol.append(("completed-early trigger=%s to=%s" % (opn, q.tclass), "a request completed (or was cancelled) at a point where neither a matching reply nor a non-resumable session end had occurred", w))
            else:
                viol.append(("completed-by-wrong-sender from=%s to=%s" % (fclass, q.tclass), "a stanza from an entity other than the addressee (or the own server) completed or cancelled the request", w))
        elif s > exp[0] or kind != exp[1]:
            viol.append(("completion-mismatch exp=%s got=%s to=%s" % (exp[1], kind, q.tclass), "request completed in segment %d with %s, model says segment %d with %s" % (s, kind, exp[0], exp[1]), w))
        else:
            stats["completed_as_modelled"] += 1
            stats["kind:" + kind] += 1
    # nested requests issued from continuations: exactly once as well
    for rid, d in done.items():
        if rid.endswith("-nested"):
            stats["nested"] += 1
            if len(d) != 1:
                viol.append(("nested-completed-%d-times" % len(d), "a request issued from inside a continuation completed %d times" % len(d), {"history": hist}))
    calls = [e for e in journal if e["ev"] == "iq_call" and e["req"].endswith("-nested")]
    for c in calls:
        if c["req"] not in done:
            viol.append(("nested-never-completed", "a request issued from inside a continuation never completed", {"history": hist}))


def gen_word(r, n):
    w = []
    for _ in range(n):
        x = r.random()
        if x < 0.3:
            w.append(("request", r.choice(list(TARGETS)), r.choice(["", "", "", "sendIq", "disconnect"])))
        elif x < 0.8:
            w.append(("reply", r.choice(["result", "result", "error", "malformed", "get"]), r.choice([0, 1, 2, 3, "unknown"]),
                      r.choice(["addressee", "absent", "bare-of-full", "full-of-bare", "stranger", "lookalike", "case-variant", "own-domain", "own-full", "own-bare"]), r.choice(["once", "once", "twice"])))
        elif x < 0.88:
            w.append(("cut",))
        elif x < 0.92:
            w.append(("disconnect",))
        else:
            w.append(("reconnect", r.choice(["resumed", "new"])))
    return w


def alphabet():
    A = [("request", "none", ""), ("request", "contact-full", ""), ("request", "own-domain", "sendIq"), ("request", "contact-bare", "disconnect")]
    for fc in ("addressee", "absent", "stranger", "bare-of-full", "full-of-bare", "own-full"):
        A.append(("reply", "result", 0, fc, "once"))
    A += [("reply", "error", 1, "addressee", "twice"), ("reply", "result", "unknown", "addressee", "once"), ("cut",), ("disconnect",), ("reconnect", "resumed"), ("reconnect", "new")]
    return A


def worker(args):
    wid, nrandom, words = args
    binary = vf.build_harness("wire")
    r = vf.rng("c07", wid)
    cases, metas = [], []
    for wd in list(words) + [gen_word(r, r.choice([4, 8, 15, 30])) for _ in range(nrandom)]:
        steps, reqs, events = build(r, wd, None)
        cases.append(dict(steps=steps, timeout=4000))
        metas.append((reqs, events))
    outs, crashes = wire.run_cases(binary, cases)
    viol, stats, inconc = [], collections.Counter(), []
    for rq, info in crashes:
        viol.append(("crash " + vf.crash_sig(info), "sanitizer report / abnormal exit of the client while completing requests", {"steps": [s for s in rq.get("steps", []) if s.get("op") in ("sendIq", "send", "cut", "disconnect")][:40], "stderr": info["stderr"][-4000:]}))
    for out, (reqs, events) in zip(outs, metas):
        if not out:
            continue
        stats["histories"] += 1
        if out["stalled"] >= 0:
            fails = [e for e in out["journal"] if e["ev"] == "await_failed"]
            inconc.append("history stalled at step %s: %s" % (out["stalled"], fails[:1]))
            continue
        judge(out["journal"], reqs, events, viol, stats)
    return viol, dict(stats), inconc


def main(tier, replay=None):
    V = vf.Verdict("C07", tier)
    vf.build_harness("wire")
    W = vf.NPROC
    A = alphabet()
    depth = 3 if tier == "quick" else 4
    words = []
    for d in range(1, depth + 1):
        for w in itertools.product(A, repeat=d):
            if w[0][0] != "request":
                continue   # a history without a first request has nothing to judge
            words.append(list(w))
    nrandom = (20000 if tier == "quick" else 1000000) // W
    with ProcessPoolExecutor(max_workers=W) as pool:
        res = list(pool.map(worker, [(w, nrandom, words[w::W]) for w in range(W)]))
    stats = collections.Counter()
    for viol, st, inconc in res:
        for sig, what, w in viol:
            V.violation(sig, what, w)
        for i in inconc:
            V.inconc(i)
        stats.update(st)
    cov = {"evaluations": stats["requests"], "distinct_nontrivial": stats["completed_as_modelled"],
           "rule": "histories over {request(6 addressee classes, optionally re-entering the client from its continuation: new request / disconnect), reply(result|error|malformed|request-with-same-id, outstanding or unknown id, 10 sender classes, once/twice), "
                   "connection loss (resumable), disconnect, reconnect (resumed|new)} with up to 4 requests outstanding: exhaustive words of length <= %d starting with a request over an %d-letter alphabet, plus random words up to length 30; "
                   "every history ends with a non-resumable close; each request's continuation count and value are compared with a request model with accept sets (addressee, absent from) and don't-care classes (case variants, own domain for own account)" % (depth, len(A)),
           "observed": dict(stats), "exhaustive_words": len(words), "samples": [{"word": [list(x) for x in words[min(len(words) - 1, 700)]]}]}
    floors = {"requests": stats["requests"] > 1000, "results": stats["kind:result"] > 0, "errors": stats["kind:error"] > 0, "nested": stats["nested"] > 0}
    V.finish(cov, "exploration", ["a stanza without from is taken to come from the user's own server (a contact cannot forge that)", "loopback TCP with fences; manager request APIs are covered by the second part when present"], floors)
