"""C02 — parsing any well-formed XML is safe and normalising (engines: codec; client half via wire, see c02 'live' part)"""
import json, os, sys
import vf, codecdrv


LIVE_MANAGERS = ["carbons2", "mam", "pubsub", "blocking", "upload", "extdisco", "mix", "receipts", "time", "muc", "bookmarks", "attention", "jmi", "callinvite", "rpc", "registration", "archive",
                 "location", "tune", "moved", "uploadrequest", "transfer"]


def memcheck_part(V, tier):
    """uninitialised reads are invisible to ASan/UBSan: a sample of the same workloads on an uninstrumented build under valgrind memcheck"""
    import collections, c01
    cb = vf.build_harness("codec", flavour="plain")
    fb = vf.build_harness("fields", flavour="plain")
    W = vf.NPROC
    per = 25 if tier == "quick" else 400
    stats = collections.Counter()
    jobs = [("codec", w) for w in range(W)] + [("fields", s) for s in range(1 if tier == "quick" else 6)]
    nsm = c01.ns_map()

    def run(job):
        kind, k = job
        if kind == "codec":
            # other cases than the ASan run: the worker index is shifted
            return job, vf.memcheck(cb, ["c02", codecdrv.SEEDS, vf.SEED, 100 + k, per], timeout=14000)
        return job, vf.memcheck(fb, [], stdin=json.dumps({"n": 1, "seed": vf.SEED * 77 + k, "ns": nsm, "skip": 0, "comboRounds": 6 if tier == "quick" else 60}) + "\n", timeout=14000)
    for (kind, k), (r, errors) in vf.pmap(run, jobs):
        if r["timed_out"]:
            V.inconc("memcheck %s worker %s timed out" % (kind, k))
            continue
        for ek, frame, block in errors:
            V.violation("memcheck %s @ %s" % (ek, frame), "valgrind memcheck: %s while a %s handled a well-formed element / setter-built object" % (ek, "parser or serializer" if kind == "codec" else "codec"),
                        {"workload": kind, "worker": k, "valgrind": block})
        if r["rc"] == 79:
            V.inconc("memcheck %s worker %s: the harness's own watchdog fired under valgrind" % (kind, k))
        elif r["rc"] not in (0, 99):
            V.violation("memcheck abnormal-exit %s rc=%s" % (kind, r["rc"]), "the uninstrumented harness died under valgrind", {"stderr": r["err"][-3000:]})
        if kind == "codec":
            for o in vf.jsonl(r["out"]):
                if o.get("summary"):
                    stats["memcheck_parser_applications"] += int(o["applications"])
                    stats["memcheck_mutated_elements"] += int(o["cases"])
        else:
            stats["memcheck_setter_field_states"] += sum(1 for o in vf.jsonl(r["out"]) if o.get("live"))
    return dict(stats)


def live_sessions(docs, batch):
    import wire
    steps = [wire.client(managers=LIVE_MANAGERS)] + wire.login_sasl(sm=False, roster=True) + [dict(op="wait_signal", name="connected")]
    for i in range(0, len(docs), batch):
        for d in docs[i:i + batch]:
            steps.append(wire.S(d))
        steps.append(dict(op="fence"))
    return dict(steps=steps, timeout=6000, stopOnStall=True, watchdog=60 if len(docs) > 1 else 25)


def live_worker(args):
    """connected-client half: mutated stanzas are sent to a logged-in client with every bundled manager; after each batch a ping fence must be answered"""
    import collections, wire
    wid, docs, per_session, batch = args
    binary = vf.build_harness("wire")
    stats, viol, inconc = collections.Counter(), [], []
    sessions = [docs[i:i + per_session] for i in range(0, len(docs), per_session)]
    closers = []

    def run(sess_list, b):
        outs, crashes = wire.run_cases(binary, [live_sessions(s, b) for s in sess_list])
        crashed = {rq["n"]: info for rq, info in crashes}
        res = []
        for i, s in enumerate(sess_list):
            out = outs[i]
            if i in crashed or not out:
                res.append(("crash", crashed.get(i), 0))
                continue
            j = out["journal"]
            fences = sum(1 for e in j if e["ev"] == "fence_done")
            need = (len(s) + b - 1) // b
            if fences >= need:
                res.append(("ok", None, fences))
            else:
                fail = [e for e in j if e["ev"] == "await_failed"][-1:]
                closed = bool(fail and fail[0].get("closed")) or any(e["ev"] == "cli_sig" and e["name"] == "disconnected" for e in j)
                res.append(("closed" if closed else "stall", None, fences))
        return res

    stats["stanzas_sent"] = len(docs)
    for _round in range(40):
        if not sessions or len(viol) >= 3:
            break   # (three witnesses per worker are enough: a client that stalls on every batch would otherwise cost a timeout each)
        nxt = []
        for s, (kind, info, fences) in zip(sessions, run(sessions, batch)):
            stats["fences_answered"] += fences
            if kind == "ok":
                stats["sessions_ok"] += 1
                stats["stanzas_survived"] += len(s)
                continue
            stats["sessions_" + kind] += 1
            stats["stanzas_survived"] += fences * batch
            bad = s[fences * batch:(fences + 1) * batch] if kind != "crash" else s     # (no journal survives a crash)
            rest = s[(fences + 1) * batch:] if kind != "crash" else []
            if rest:
                nxt.append(rest)      # the stanzas behind the batch that ended the session go into a fresh session
            # isolate: every stanza of the batch alone in a fresh session
            if len(viol) >= 3:
                continue
            singles = [[d] for d in bad]
            found = False
            for d, (k2, info2, _) in zip(singles, run(singles, 1)):
                if k2 == "crash":
                    found = True
                    viol.append(("live crash " + vf.crash_sig(info2), "sanitizer report / abnormal exit of a connected client after one well-formed stanza", {"stanza": d[0][:6000], "stderr": info2["stderr"][-3000:] if info2 else ""}))
                elif k2 == "stall":
                    found = True
                    viol.append(("live client-unresponsive", "a connected client stops answering pings after one well-formed stanza (no disconnect either)", {"stanza": d[0][:6000]}))
                elif k2 == "closed":
                    found = True
                    stats["stanzas_that_make_the_client_disconnect"] += 1
                    if len(closers) < 5:
                        closers.append(d[0][:300])
                else:
                    stats["stanzas_survived"] += 1
            if not found:
                if kind == "crash":
                    viol.append(("live crash-not-isolated " + vf.crash_sig(info), "the client died during a session of well-formed stanzas; no single stanza reproduces it", {"stderr": info["stderr"][-3000:] if info else "", "stanzas": [x[:500] for x in bad[:50]]}))
                else:
                    inconc.append("live session %s at a batch whose stanzas are harmless one by one" % kind)
        sessions = nxt
    stats["closers_sample"] = 0
    return viol, dict(stats), inconc, closers


def nonza_part(V, stats):
    """stream-level elements (no stanzas) in every phase of a session: stream errors without / with an unknown / a misplaced condition, SASL, SASL 2,
    STARTTLS, stream-management and Bind 2 answers nobody asked for or with broken attributes. The client may ignore them or close the stream;
    it must not die or hang, and an established session must either end or still answer a ping"""
    import wire
    ST, SA, S2, TL, SM = "urn:ietf:params:xml:ns:xmpp-streams", wire.NS_SASL, "urn:xmpp:sasl:2", "urn:ietf:params:xml:ns:xmpp-tls", wire.NS_SM
    N = ["<stream:error/>", "<stream:error><quota-exceeded xmlns='%s'/></stream:error>" % ST, "<stream:error><host-unknown xmlns='urn:example:wrong'/></stream:error>",
         "<stream:error><text xmlns='%s'>only a text</text></stream:error>" % ST, "<stream:error><see-other-host xmlns='%s'/></stream:error>" % ST,
         "<stream:error><see-other-host xmlns='%s'>:::no:host:::</see-other-host></stream:error>" % ST, "<stream:error><see-other-host xmlns='%s'>[::1</see-other-host></stream:error>" % ST,
         "<stream:error><see-other-host xmlns='%s'>host.example:99999999</see-other-host></stream:error>" % ST,
         "<stream:error><conflict xmlns='%s'/><conflict xmlns='%s'/><text xmlns='%s'/><x xmlns='urn:example:app'/></stream:error>" % (ST, ST, ST),
         "<stream:features/>", "<stream:features><unknown xmlns='urn:example:x'/><mechanisms xmlns='%s'/></stream:features>" % SA,
         "<success xmlns='%s'/>" % SA, "<success xmlns='%s'>!!!</success>" % SA, "<failure xmlns='%s'/>" % SA, "<failure xmlns='%s'><no-such-condition/><text/></failure>" % SA, "<challenge xmlns='%s'>!!!</challenge>" % SA, "<challenge xmlns='%s'/>" % SA,
         "<success xmlns='%s'/>" % S2, "<success xmlns='%s'><authorization-identifier/></success>" % S2, "<failure xmlns='%s'/>" % S2, "<continue xmlns='%s'/>" % S2, "<continue xmlns='%s'><tasks/></continue>" % S2, "<challenge xmlns='%s'/>" % S2,
         "<proceed xmlns='%s'/>" % TL, "<failure xmlns='%s'/>" % TL,
         "<enabled xmlns='%s'/>" % SM, "<enabled xmlns='%s' resume='maybe' max='x' id=''/>" % SM, "<resumed xmlns='%s'/>" % SM, "<resumed xmlns='%s' h='x' previd=''/>" % SM, "<resumed xmlns='%s' h='4294967297' previd='nope'/>" % SM,
         "<failed xmlns='%s'/>" % SM, "<failed xmlns='%s' h='-1'><x xmlns='urn:example:x'/></failed>" % SM, "<a xmlns='%s'/>" % SM, "<a xmlns='%s' h='garbage'/>" % SM, "<a xmlns='%s' h='4294967296'/>" % SM, "<a xmlns='%s' h='-5'/>" % SM, "<r xmlns='%s'/>" % SM,
         "<bound xmlns='urn:xmpp:bind:0'/>", "<unknown xmlns='urn:example:nonza'><deep><deeper/></deep></unknown>", "<message xmlns='urn:example:not-jabber-client'><body>x</body></message>", "<iq xmlns='jabber:server' type='get' id='x'><ping xmlns='urn:xmpp:ping'/></iq>"]
    cases, metas = [], []
    for x in N:
        for phase in ("established", "established-sm", "after-features", "instead-of-success", "after-restart"):
            if phase.startswith("established"):
                st = [wire.client(managers=LIVE_MANAGERS)] + wire.login_sasl(sm=phase.endswith("sm"), resumable=True, roster=True) + [dict(op="wait_signal", name="connected"), wire.S(x), dict(op="fence", optional=True, timeout=1500)]
            else:
                st = [wire.client(), dict(op="connect"), wire.A("stream:stream"), wire.S(wire.hdr("n1") + wire.features(wire.f_mechs(), wire.F_SM))]
                if phase == "after-features":
                    st += [wire.S(x)]
                else:
                    st += [wire.A("auth", optional=True, timeout=800)]
                    if phase == "instead-of-success":
                        st += [wire.S(x)]
                    else:
                        st += [wire.S("<success xmlns='%s'/>" % SA, restart=True), wire.A("stream:stream", optional=True, timeout=800), wire.S(wire.hdr("n1b")), wire.S(x)]
                st += [dict(op="settle", quiet=40)]
            st += [dict(op="query", tag="end")]
            cases.append(dict(steps=st, timeout=4000, stopOnStall=False, watchdog=25))
            metas.append((x, phase))
    outs, crashes = wire.run_cases(vf.build_harness("wire"), cases)
    for rq, info in crashes:
        m = metas[rq["n"]] if rq.get("n") is not None and rq["n"] < len(metas) else ("?", "?")
        V.violation("live crash " + vf.crash_sig(info), "sanitizer report / abnormal exit of a client after one well-formed stream-level element (%s)" % m[1], {"element": m[0], "phase": m[1], "stderr": info["stderr"][-3000:]})
    for out, (x, phase) in zip(outs, metas):
        if not out:
            continue
        stats["stream_level_elements_sent"] += 1
        j = out["journal"]
        if phase.startswith("established"):
            fenced = any(e["ev"] == "fence_done" for e in j)
            gone = any(e["ev"] == "cli_sig" and e["name"] == "disconnected" for e in j) or any(e["ev"] == "srv_peer_closed" for e in j)
            if fenced:
                stats["stream_level_ignored_session_alive"] += 1
            elif gone:
                stats["stream_level_session_closed"] += 1
            else:
                V.violation("live client-unresponsive stream-level", "a connected client neither answers a ping nor disconnects after one well-formed stream-level element", {"element": x, "phase": phase})


def live_half(V, tier, binary):
    import collections
    n = 6000 if tier == "quick" else 120000
    W = vf.NPROC
    per = n // W + 1
    outs = vf.pmap(lambda w: vf.run_proc([binary, "emit", codecdrv.SEEDS, str(vf.SEED), str(w), str(per)], timeout=3600, env=vf.env_for()), list(range(W)))
    docs = []
    for o in outs:
        if o["rc"] != 0:
            raise vf.HarnessFailure("codec emit failed: %s" % o["err"][-2000:])
        docs.append([d["xml"] for d in vf.jsonl(o["out"])])
    from concurrent.futures import ProcessPoolExecutor
    with ProcessPoolExecutor(max_workers=W) as pool:
        res = list(pool.map(live_worker, [(w, docs[w], 200, 20) for w in range(W)]))
    stats = collections.Counter()
    closers = []
    for viol, st, inconc, cl in res:
        for sig, what, w in viol:
            V.violation(sig, what, w)
        for i in inconc:
            V.inconc(i)
        stats.update(st)
        closers += cl
    nonza_part(V, stats)
    out = dict(stats)
    out.pop("closers_sample", None)
    out["sample_of_stanzas_after_which_the_client_closes_the_stream (not judged: IQs without a valid type)"] = closers[:6]
    return out


def main(tier, replay=None):
    V = vf.Verdict("C02", tier)
    binary = vf.build_harness("codec")
    W = vf.NPROC
    codecdrv.SIB = 1 if tier == "quick" else 6
    if replay:
        w = json.load(open(replay))["witness"]
        args = w["harness_args"] + ([str(w["case"])] if w.get("case") is not None and len(w["harness_args"]) == 5 else [])
        viols, summary, crash = codecdrv.run_worker(binary, args)
        for o in viols:
            V.violation("%s %s" % (o["violation"], o["type"]), "replayed", o)
        if crash:
            codecdrv.add_crash(V, crash, args, "replay")
        V.finish({"evaluations": 1, "distinct_nontrivial": 2, "rule": "replay", "samples": [w]}, "exploration", [], {})
    # ~28 parser applications per mutated element
    ncases = (150000 // 28 if tier == "quick" else 3000000 // 28) // W + 1
    jobs = [("c02", codecdrv.SEEDS, vf.SEED, w, ncases) for w in range(W)]
    res = vf.pmap(lambda a: (a, codecdrv.run_worker_restarting(binary, a, timeout=7200 if tier == "quick" else 28000, heavy=(tier != "quick"))), jobs)
    parsers, ops = {}, {}
    apps = cases = sibc = 0
    samples = []
    for args, (viols, sums, crashes) in res:
        for o in viols:
            sig = "%s %s" % (o["violation"], o["type"])
            what = {"not-a-fixpoint": "ser(parse(ser(parse(d)))) differs from ser(parse(d))", "own-output-refused": "parser refuses its own output",
                    "output-not-wellformed": "serializer output is not well-formed XML"}.get(o["violation"].split(" ")[0], o["violation"])
            V.violation(sig, "%s: %s" % (o["type"], what), dict(o, harness_args=[str(x) for x in args]))
            if len(samples) < 2:
                samples.append({"input": o.get("doc", "")[:300], "type": o["type"], "finding": o["violation"]})
        for crash in crashes:
            codecdrv.add_crash(V, crash, args, "c02 worker %s" % args[3], binary)
        for summary in sums:
            apps += int(summary["applications"])
            sibc += int(summary.get("systematic_sibling_cases", 0))
            cases += int(summary["cases"])
            for k, v in summary["parsers"].items():
                p = parsers.setdefault(k, [0, 0, 0])
                for i in range(3):
                    p[i] += int(v[i])
            for k, v in summary["ops"].items():
                ops[k] = ops.get(k, 0) + int(v)
        if not sums and not crashes:
            raise vf.HarnessFailure("codec worker produced no summary")
    live = live_half(V, tier, binary)
    mc = memcheck_part(V, tier)
    apps += live.get("stanzas_sent", 0)
    if not samples:
        samples.append({"note": "no violation; per-parser counters in 'parsers' = [admitted, parsed, fixpoint-confirmed]"})
    never = [k for k, v in parsers.items() if v[1] == 0 and k != "StreamErrorElement"]
    cov = {"evaluations": apps, "distinct_nontrivial": sum(v[2] for v in parsers.values()),
           "rule": "seed documents lifted from the test-suite, 0-3 DOM mutations each (18 operators: delete/duplicate/reorder/move/re-namespace incl. hostile URIs/strip/empty/hostile numbers and strings/deep nesting/huge text/cross-breeding/rename/unknown children/many siblings/sibling from the same vocabulary/twin of an element in a foreign namespace), plus a systematic pass that gives every element of every seed document a sibling from its own namespace's vocabulary (1 quick / 6 thorough per element) and a twin in a foreign namespace; "
                   "every registered parser applied to every element its own type check admits (parsers without a type check to all); distinct_nontrivial = applications whose output was re-parsed and confirmed a fixpoint",
           "mutated_elements": cases, "systematic_sibling_cases": sibc, "parsers": parsers, "mutation_operators": ops, "parsers_that_never_parsed": never, "samples": samples,
           "memcheck_sample": dict(mc, rule="the codec workload (other cases than the ASan run) and the setter-built objects of C01 on an uninstrumented -O1 build under valgrind memcheck: any uninitialised-value use or invalid access is a violation"),
           "connected_client": dict(live, rule="mutated stanzas (same mutators; payload seeds wrapped into message/presence/iq of every type; from/to rewritten to own/server/contact/room addresses half of the time) sent by the scripted server to a logged-in "
                                              "QXmppClient with %d managers under ASan/UBSan, 20 per ping fence; a failed batch is re-run stanza by stanza in fresh sessions" % (len(LIVE_MANAGERS) + 4))}
    floors = {"applications": apps > 1000, "parsers_reached": (len(never) == 0) if tier != "quick" else (len(never) <= 0.1 * len(parsers)), "all_operators_used": len(ops) == 18, "memcheck_ran": mc.get("memcheck_parser_applications", 0) > 100 and mc.get("memcheck_setter_field_states", 0) > 100, "live_stanzas_survived": live.get("stanzas_survived", 0) >= 0.8 * max(1, live.get("stanzas_sent", 0)), "stream_level_elements": live.get("stream_level_elements_sent", 0) >= 150}
    V.finish(cov, "exploration", ["Qt's XML reader/writer and DOM are trusted (well-formedness is judged with them)", "nesting depth <= 2000 and text <= 1 MiB",
                                  "uninitialised reads are covered only by the memcheck sample (quick: ~400 mutated elements + one pass over the setter-built objects)"], floors)
