"""C02 — parsing any well-formed XML is safe and normalising (engines: codec; client half via wire, see c02 'live' part)"""
import json, os, sys
import vf, codecdrv


def main(tier, replay=None):
    V = vf.Verdict("C02", tier)
    binary = vf.build_harness("codec")
    W = vf.NPROC
    if replay:
        w = json.load(open(replay))["witness"]
        args = w["harness_args"] + ([str(w["case"])] if w.get("case") is not None and len(w["harness_args"]) == 5 else [])
        viols, summary, crash = codecdrv.run_worker(binary, args)
        for o in viols:
            V.violation("%s %s" % (o["violation"], o["type"]), "replayed", o)
        if crash:
            codecdrv.add_crash(V, crash, args, "replay")
        V.finish({"evaluations": 1, "distinct_nontrivial": 2, "rule": "replay", "samples": [w]}, "exploration", [], {})
    # ~28 parser applications per mutated element
    ncases = (150000 // 28 if tier == "quick" else 10000000 // 28) // W + 1
    jobs = [("c02", codecdrv.SEEDS, vf.SEED, w, ncases) for w in range(W)]
    res = vf.pmap(lambda a: (a, codecdrv.run_worker_restarting(binary, a, timeout=7200 if tier == "quick" else 28000, heavy=(tier != "quick"))), jobs)
    parsers, ops = {}, {}
    apps = cases = 0
    samples = []
    for args, (viols, sums, crashes) in res:
        for o in viols:
            sig = "%s %s" % (o["violation"], o["type"])
            what = {"not-a-fixpoint": "ser(parse(ser(parse(d)))) differs from ser(parse(d))", "own-output-refused": "parser refuses its own output",
                    "output-not-wellformed": "serializer output is not well-formed XML"}.get(o["violation"].split(" ")[0], o["violation"])
            V.violation(sig, "%s: %s" % (o["type"], what), dict(o, harness_args=[str(x) for x in args]))
            if len(samples) < 2:
                samples.append({"input": o.get("doc", "")[:300], "type": o["type"], "finding": o["violation"]})
        for crash in crashes:
            codecdrv.add_crash(V, crash, args, "c02 worker %s" % args[3])
        for summary in sums:
            apps += int(summary["applications"])
            cases += int(summary["cases"])
            for k, v in summary["parsers"].items():
                p = parsers.setdefault(k, [0, 0, 0])
                for i in range(3):
                    p[i] += int(v[i])
            for k, v in summary["ops"].items():
                ops[k] = ops.get(k, 0) + int(v)
        if not sums and not crashes:
            raise vf.HarnessFailure("codec worker produced no summary")
    if not samples:
        samples.append({"note": "no violation; per-parser counters in 'parsers' = [admitted, parsed, fixpoint-confirmed]"})
    never = [k for k, v in parsers.items() if v[1] == 0 and k != "StreamErrorElement"]
    cov = {"evaluations": apps, "distinct_nontrivial": sum(v[2] for v in parsers.values()),
           "rule": "seed documents lifted from the test-suite, 0-3 DOM mutations each (16 operators: delete/duplicate/reorder/move/re-namespace/strip/empty/hostile numbers and strings/deep nesting/huge text/cross-breeding/rename/unknown children/many siblings); "
                   "every registered parser applied to every element its own type check admits (parsers without a type check to all); distinct_nontrivial = applications whose output was re-parsed and confirmed a fixpoint",
           "mutated_elements": cases, "parsers": parsers, "mutation_operators": ops, "parsers_that_never_parsed": never, "samples": samples}
    floors = {"applications": apps > 1000, "parsers_reached": (len(never) == 0) if tier != "quick" else (len(never) <= 0.1 * len(parsers)), "all_operators_used": len(ops) == 16}
    V.finish(cov, "exploration", ["Qt's XML reader/writer and DOM are trusted (well-formedness is judged with them)", "nesting depth <= 2000 and text <= 1 MiB",
                                  "uninitialised reads are outside ASan/UBSan's reach"], floors)
