"""C12 — the roster view is the last full roster plus authorised pushes, nothing else (engine: wire)"""
import collections, itertools, json, os, sys
from concurrent.futures import ProcessPoolExecutor
import vf, wire

OWN, OWNFULL = wire.BARE, wire.JID
POOL = ["bob@example.org", "carol@example.com", "dave@example.net", "erin@example.org", "frank@chat.example", "müller@example.org"]
PUSH_SENDERS = {   # name -> (from attribute or None, class)
    "absent": (None, "accept"), "own-bare": (OWN, "accept"), "own-full": (OWNFULL, "accept"),
    "own-other-resource": (OWN + "/tablet", "dontcare"), "server-domain": ("example.org", "dontcare"), "case-variant": ("ALICE@example.org", "dontcare"),
    "stranger": ("mallory@evil.example/x", "reject"), "lookalike": ("alice@example.org.evil.example", "reject"), "contact": ("bob@example.org/phone", "reject"),
    "lookalike-prefix": ("xalice@example.org", "reject"),
}
SUBS = {"none": 0, "both": 3, "from": 1, "to": 2}   # QXmppRosterIq::Item::SubscriptionType values: None=0, From=1, To=2, Both=3, Remove=4


def item_xml(jid, name, sub, groups, ask=False, approved=False):
    return "<item jid='%s'%s subscription='%s'%s%s>%s</item>" % (jid, " name='%s'" % name if name else "", sub, " ask='subscribe'" if ask else "", " approved='true'" if approved else "",
                                                                 "".join("<group>%s</group>" % g for g in groups))


class Model:
    def __init__(self):
        self.roster = {}
        self.presence = collections.defaultdict(set)

    def new_session(self):
        self.roster = {}
        self.presence = collections.defaultdict(set)

    def full(self, items):
        self.roster = {i[0]: (i[1], i[2], sorted(i[3]), bool(i[4]), bool(i[5])) for i in items}

    def push(self, items):
        for (j, n, s, g, ask, appr) in items:
            if s == "remove":
                self.roster.pop(j, None)
            else:
                self.roster[j] = (n, s, sorted(g), bool(ask), bool(appr))

    def pres(self, jid, available):
        b, _, r = jid.partition("/")
        if available:
            self.presence[b].add(r)
        else:
            self.presence[b].discard(r)

    def view(self):
        return {j: {"name": n, "sub": SUBS[s], "groups": g, "ask": "subscribe" if ask else "", "approved": appr} for j, (n, s, g, ask, appr) in self.roster.items()}


def gen_items(r, k):
    out = []
    for j in r.sample(POOL, k):
        out.append((j, r.choice(["", "Nick", "Ünï"]), r.choice(["none", "both", "from", "to"]), r.sample(["Friends", "Work", "Ω"], r.choice([0, 1, 2])), r.random() < 0.25, r.random() < 0.25))
    return out


def tweak_item(r, m):
    """an update that changes exactly one field of a contact the model already has (what a server pushes after a rename, a group change,
    a subscription request or a pre-approval)"""
    if not m.roster:
        return None
    j = r.choice(sorted(m.roster))
    n, s, g, ask, appr = m.roster[j]
    f = r.choice(["name", "sub", "groups", "ask", "approved"])
    if f == "name":
        n = r.choice([x for x in ["", "Nick", "Ünï", "Other"] if x != n])
    elif f == "sub":
        s = r.choice([x for x in ["none", "both", "from", "to"] if x != s])
    elif f == "groups":
        g = sorted(set(g) ^ {r.choice(["Friends", "Work", "Ω"])})
    elif f == "ask":
        ask = not ask
    else:
        appr = not appr
    return (j, n, s, list(g), ask, appr)


def build_case(r, length, exhaustive_word=None):
    """returns (steps, plan) where plan describes the model-side meaning of each checkpoint"""
    steps = [wire.client()]
    plan = []
    m = Model()
    n = [0]

    def checkpoint(tag_extra=None):
        n[0] += 1
        tag = "q%d" % n[0]
        steps.append(dict(op="fence", sm=True))
        steps.append(dict(op="query", tag=tag, presenceOf=POOL + [OWN]))
        return tag

    def login(first, mode):
        # mode: 'new' | 'resumed' | 'new-after-failed-resume' | 'no-sm'
        full_items = gen_items(r, r.randrange(0, len(POOL) + 1))
        roster_xml = "<iq type='result' id='$ID'><query xmlns='jabber:iq:roster'>%s</query></iq>" % "".join(item_xml(*i) for i in full_items)
        if first:
            st = wire.login_sasl(sm=True, resumable=True, roster=False)
        else:
            st = wire.relogin(resume={"resumed": "accept", "new-after-failed-resume": "fail", "no-sm": "none"}.get(mode, "fail"), roster=False,
                              resumable=True)
        steps.extend(st)
        if mode == "resumed":
            steps.append(dict(op="wait_signal", name="connected", fromSeq=0))
            plan.append(("resumed", None, checkpoint() if True else None))
            return
        m_items = full_items
        steps.extend([wire.A("iq", child="query", optional=True, timeout=400), wire.S(roster_xml)])
        plan.append(("full", full_items, None))
        m.full(full_items)

    login(True, "new")
    plan[-1] = ("full", plan[-1][1], checkpoint())
    sm_on = True
    ops = exhaustive_word if exhaustive_word is not None else [None] * length
    for forced in ops:
        op = forced or r.choice(["push"] * 5 + ["presence"] * 4 + ["reconnect"])
        if isinstance(op, tuple):
            op, arg = op
        else:
            arg = None
        if op == "push":
            sname = arg[0] if arg else r.choice(list(PUSH_SENDERS))
            frm, cls = PUSH_SENDERS[sname]
            kind = arg[1] if arg else r.choice(["add", "update", "remove", "multi", "tweak", "tweak"])
            tw = tweak_item(r, m) if kind == "tweak" and cls == "accept" else None
            if tw is not None:
                items = [tw]
            elif kind == "remove":
                items = [(r.choice(POOL), "", "remove", [], False, False)]
            elif kind == "multi":
                items = gen_items(r, 2)
            else:
                items = gen_items(r, 1)
            pid = "push-%d" % (n[0] + 1)
            steps.append(wire.S("<iq type='set' id='%s'%s><query xmlns='jabber:iq:roster'>%s</query></iq>" % (pid, " from='%s'" % frm if frm is not None else "", "".join(item_xml(*i) for i in items))))
            plan.append(("push", (sname, cls, pid, items), checkpoint()))
            if cls == "accept":
                m.push(items)       # (build-time copy of the model: only used to aim 'tweak' pushes at contacts that exist)
        elif op == "presence":
            jid = (arg[0] if arg else r.choice(POOL + [OWN])) + "/" + (arg[1] if arg else r.choice(["phone", "laptop", "ψ"]))
            ptype = arg[2] if arg else r.choice(["available", "available", "unavailable", "error", "probe", "subscribed"])
            ta = "" if ptype == "available" else " type='%s'" % ptype
            steps.append(wire.S("<presence from='%s'%s><status>s</status></presence>" % (jid, ta)))
            plan.append(("presence", (jid, ptype), checkpoint()))
        elif op == "reconnect":
            mode = arg or r.choice(["resumed", "new-after-failed-resume", "no-sm"])
            if not sm_on:
                mode = r.choice(["new-after-failed-resume", "no-sm"]) if False else "plain-new"
            steps.append(dict(op="cut"))
            steps.append(dict(op="wait_signal", name="disconnected"))
            plan.append(("cut", None, None))
            if mode == "plain-new":
                # previous session had no stream management: ordinary fresh login (server offers sm again)
                full_items = gen_items(r, r.randrange(0, len(POOL) + 1))
                st = wire.relogin(resume="fail", roster=False)
                st = [s for s in st if not (s.get("op") == "await" and s.get("tag") == "resume") and "failed xmlns" not in s.get("xml", "")]
                # the client may still offer to resume a session from before the sm-less one: the server refuses in passing
                for s in st:
                    if s.get("op") == "await" and s.get("child") == "bind":
                        s["react"] = {"resume": "<failed xmlns='urn:xmpp:sm:3'><item-not-found xmlns='urn:ietf:params:xml:ns:xmpp-stanzas'/></failed>"}
                steps.extend(st)
                steps.extend([wire.A("iq", child="query", optional=True, timeout=400), wire.S("<iq type='result' id='$ID'><query xmlns='jabber:iq:roster'>%s</query></iq>" % "".join(item_xml(*i) for i in full_items))])
                plan.append(("full-new-session", full_items, checkpoint()))
                m.full(full_items)
                sm_on = True
            elif mode == "resumed":
                steps.extend(wire.relogin(resume="accept", roster=False))
                plan.append(("resumed", None, checkpoint()))
            else:
                full_items = gen_items(r, r.randrange(0, len(POOL) + 1))
                steps.extend(wire.relogin(resume="fail" if mode == "new-after-failed-resume" else "none", roster=False))
                steps.extend([wire.A("iq", child="query", optional=True, timeout=400), wire.S("<iq type='result' id='$ID'><query xmlns='jabber:iq:roster'>%s</query></iq>" % "".join(item_xml(*i) for i in full_items))])
                plan.append(("full-new-session", full_items, checkpoint()))
                m.full(full_items)
                sm_on = mode != "no-sm"
                if not sm_on:
                    # without stream management there is no <r/> fence: use ping fences from now on
                    for s in steps[-2:]:
                        if s.get("op") == "fence":
                            s["sm"] = False
        # after a no-sm session fences must be pings
        if not sm_on:
            for s in steps[-2:]:
                if s.get("op") == "fence":
                    s["sm"] = False
    return steps, plan


def judge(journal, plan, viol, stats, script_summary):
    m = Model()
    queries = {e["tag"]: e for e in journal if e["ev"] == "query"}
    results = collections.Counter(e["id"] for e in wire.srv_rx(journal) if e["tag"] == "iq" and e["type"] == "result")
    hist = []
    for (kind, arg, tag) in plan:
        hist.append((kind, arg))
        if kind == "full":
            m.new_session()
            m.full(arg)
        elif kind == "full-new-session":
            m.new_session()
            m.full(arg)
            stats["new_sessions"] += 1
        elif kind == "resumed":
            stats["resumed_sessions"] += 1
        elif kind == "cut":
            continue
        elif kind == "push":
            sname, cls, pid, items = arg
            acked = results.get(pid, 0)
            stats["push:" + cls] += 1
            w = {"history": hist[-12:], "push_from": PUSH_SENDERS[sname][0], "sender_class": sname, "acknowledged": acked}
            if cls == "accept":
                if acked != 1:
                    viol.append(("authorised-push-not-acknowledged-once %s got=%d" % (sname, acked), "a roster push from the user's own account/server got %d result IQs" % acked, w))
                m.push(items)
            elif cls == "reject":
                if acked:
                    viol.append(("unauthorised-push-acknowledged %s" % sname, "a roster push from another entity was acknowledged with a result IQ", w))
            else:
                if acked:
                    m.push(items)
        elif kind == "presence":
            jid, ptype = arg
            if ptype == "available":
                m.pres(jid, True)
            elif ptype == "unavailable":
                m.pres(jid, False)
        if tag is None:
            continue
        q = queries.get(tag)
        if q is None:
            return "checkpoint %s missing" % tag
        stats["checkpoints"] += 1
        got, exp = q.get("roster", {}), m.view()
        if got != exp:
            only_impl = sorted(set(got) - set(exp))
            only_model = sorted(set(exp) - set(got))
            if kind == "push" and arg[1] == "reject":
                sig = "unauthorised-push-applied %s" % arg[0]
            elif kind in ("full-new-session",):
                sig = "stale-roster-in-new-session"
            elif kind == "push":
                sig = "push-misapplied"
            else:
                sig = "roster-differs after-%s" % kind
            viol.append((sig, "contact list differs from last full roster + authorised pushes (only in client: %s, only in model: %s)" % (only_impl, only_model),
                         {"history": hist[-12:], "client_view": got, "model_view": exp}))
            return None
        gp = {k: v for k, v in q.get("presence", {}).items() if v}
        ep = {k: sorted(v) for k, v in m.presence.items() if v}
        if gp != ep:
            sig = "stale-presence-in-new-session" if kind == "full-new-session" else "presence-differs after-%s%s" % (kind, (" " + arg[1]) if kind == "presence" else "")
            viol.append((sig, "presence table differs from the resources whose latest presence was available", {"history": hist[-12:], "client_view": gp, "model_view": ep}))
            return None
    stats["histories_ok"] += 1
    return None


def worker(args):
    wid, count, words = args
    binary = vf.build_harness("wire")
    r = vf.rng("c12", wid)
    cases, plans = [], []
    for wd in words:
        steps, plan = build_case(r, len(wd), wd)
        cases.append(dict(steps=steps, timeout=6000))
        plans.append(plan)
    for _ in range(count):
        steps, plan = build_case(r, r.choice([5, 10, 20, 40, 60]))
        cases.append(dict(steps=steps, timeout=6000))
        plans.append(plan)
    outs, crashes = wire.run_cases(binary, cases)
    case_of = {id(p_): c_ for p_, c_ in zip(plans, cases)}
    viol, stats, inconc = [], collections.Counter(), []
    for rq, info in crashes:
        viol.append(("crash " + vf.crash_sig(info), "sanitizer report / abnormal exit of a connected client while handling roster traffic", {"stderr": info["stderr"][-3000:]}))
    for out, plan in zip(outs, plans):
        if not out:
            continue
        stats["histories"] += 1
        if out["stalled"] >= 0:
            fails = [e for e in out["journal"] if e["ev"] == "await_failed"]
            inconc.append("history stalled at step %s: %s" % (out["stalled"], fails[:1]))
            continue
        v_, st_, err = wire.judged(binary, case_of[id(plan)], out, lambda j_, vv, ss: judge(j_, plan, vv, ss, None))
        viol += v_
        stats.update(st_)
        if err:
            inconc.append(err)
    return viol, dict(stats), inconc


def main(tier, replay=None):
    V = vf.Verdict("C12", tier)
    vf.build_harness("wire")
    W = vf.NPROC
    # exhaustive small depth over a reduced alphabet
    alpha = [("push", (s, k)) for s in ("absent", "own-full", "stranger", "lookalike", "contact") for k in ("add", "remove")]
    alpha += [("presence", ("bob@example.org", "phone", t)) for t in ("available", "unavailable")]
    alpha += [("reconnect", m) for m in ("resumed", "new-after-failed-resume", "no-sm")]
    depth = 2 if tier == "quick" else 3
    words = []
    for d in range(1, depth + 1):
        words += [list(w) for w in itertools.product(alpha, repeat=d)]
    total = 3000 if tier == "quick" else 100000
    with ProcessPoolExecutor(max_workers=W) as pool:
        res = list(pool.map(worker, [(w, total // W, words[w::W]) for w in range(W)]))
    stats = collections.Counter()
    for viol, st, inconc in res:
        for sig, what, w in viol:
            V.violation(sig, what, w)
        for i in inconc:
            V.inconc(i)
        stats.update(st)
    cov = {"evaluations": stats["checkpoints"], "distinct_nontrivial": stats["histories_ok"],
           "rule": "histories over {full roster (0-6 items of a 6-JID pool), push add/update/remove/multi-item from 10 sender classes, presence available/unavailable/error/probe/subscribed from 3 resources of 7 JIDs, "
                   "connection loss followed by resumed / new-after-failed-resume / new-without-sm session}: exhaustive words of length <= %d over a %d-letter alphabet plus random histories of length <= 60; after every step "
                   "(XEP-0198 or ping fence) the manager's roster and presence getters are compared with a two-map reference model; result IQs per push counted on the server transcript" % (depth, len(alpha)),
           "observed": dict(stats), "samples": [{"word": [str(x) for x in words[len(words) // 2]]}]}
    floors = {"checkpoints": stats["checkpoints"] > 1000, "accept_pushes": stats["push:accept"] > 0, "reject_pushes": stats["push:reject"] > 0, "new_sessions": stats["new_sessions"] > 0, "resumed": stats["resumed_sessions"] > 0}
    V.finish(cov, "exploration", ["pushes from other resources of the own account, the bare server domain and case variants follow the acknowledgement observed (not judged)",
                                  "the view while disconnected is not judged; only available/unavailable presences change the reference presence table"], floors)
