"""C15 — ICE reacts only to checks authenticated with the session password; peers connect (engine: ice)"""
import collections, itertools, json, os, struct, subprocess, sys
from concurrent.futures import ProcessPoolExecutor
import vf, pystun
from pystun import A, tlv, encode

TYPE_PREF = {0: 126, 1: 110, 2: 100, 3: 0}   # QXmppJingleCandidate::Type: Host, PeerReflexive, ServerReflexive, Relayed


class Proc:
    def __init__(self):
        self.binary = vf.build_harness("ice")
        self.p = subprocess.Popen([self.binary], stdin=subprocess.PIPE, stdout=subprocess.PIPE, stderr=subprocess.PIPE, text=True, env=vf.env_for())
        self.n = 0

    def rpc(self, o):
        self.n += 1
        o = dict(o, n=self.n)
        self.p.stdin.write(json.dumps(o) + "\n")
        self.p.stdin.flush()
        while True:
            l = self.p.stdout.readline()
            if not l:
                raise EOFError(self.p.stderr.read())
            if l.startswith("{"):
                return json.loads(l)

    def close(self):
        try:
            self.p.stdin.close()
            self.p.wait(timeout=5)
        except Exception:
            self.p.kill()


def forged(r, setup, spec):
    """one forged datagram for victim B"""
    b, a = setup["b"], setup["a"]
    if spec["cls"] == "raw":
        # datagrams that are not STUN at all: anyone can send them to an advertised candidate
        k = spec["raw"]
        return {"empty": b"", "one-byte": b"\x00", "short-header": struct.pack(">HHI", 0x0001, 0, pystun.MAGIC) + b"\x01\x02", "garbage": bytes([0x40 + r.randrange(0x40)]) + r.randbytes(29),
                "rtp-like": b"\x80\x60" + r.randbytes(10), "header-only-lying-length": struct.pack(">HHI", 0x0001, 400, pystun.MAGIC) + r.randbytes(12)}[k]
    cls = {"request": 0x0001, "success": 0x0101, "error": 0x0111, "indication": 0x0011}[spec["cls"]]
    tid = r.randbytes(12)
    attrs = []
    user = {"right": "%s:%s" % (b["user"], a["user"]), "wrong": "zzzz:yyyy", "reversed": "%s:%s" % (a["user"], b["user"]), "none": None}[spec["user"]]
    if user is not None:
        attrs.append(tlv(A["USERNAME"], user.encode()))
    if spec["cls"] == "request":
        attrs.append(tlv(A["PRIORITY"], struct.pack(">I", 1845501695)))
        if spec.get("use_candidate"):
            attrs.append(tlv(A["USE_CANDIDATE"], b""))
        if spec.get("role") == "controlling":
            attrs.append(tlv(A["ICE_CONTROLLING"], r.randbytes(8)))
        elif spec.get("role") == "controlled":
            attrs.append(tlv(A["ICE_CONTROLLED"], r.randbytes(8)))
    if spec["cls"] == "success":
        attrs.append(pystun.addr_attr(A["XOR_MAPPED"], "127.0.0.1", setup["b"]["port"], tid))
    if spec["cls"] == "error":
        attrs.append(tlv(A["ERROR"], struct.pack(">HBB", 0, 4, 87) + b"Role Conflict"))
    integ = spec["integrity"]
    # requests are verified with the victim's local password, responses with the remote (A's) password
    right_key = (b["password"] if spec["cls"] in ("request", "indication") else a["password"]).encode()
    if integ == "none":
        pkt = encode(cls, tid, attrs, b"", spec.get("fingerprint", True))
    elif integ == "wrong-key":
        pkt = encode(cls, tid, attrs, b"not-the-session-password", spec.get("fingerprint", True))
    elif integ == "other-sides-key":
        other = (a["password"] if spec["cls"] in ("request", "indication") else b["password"]).encode()
        pkt = encode(cls, tid, attrs, other, spec.get("fingerprint", True))
    elif integ == "valid-then-altered":
        # a captured valid integrity value replayed over changed content
        good = encode(cls, tid, attrs, right_key, False)
        ba = bytearray(good)
        ba[9] ^= 0x01                      # another transaction id
        pkt = bytes(ba)
        if spec.get("fingerprint", True):
            crc = pystun.expected_fp(pkt + b"\0" * 8, len(pkt))
            pkt = pkt[:2] + struct.pack(">H", len(pkt) - 20 + 8) + pkt[4:] + tlv(A["FINGERPRINT"], struct.pack(">I", crc))
    elif integ == "truncated-at-integrity":
        good = encode(cls, tid, attrs, right_key, False)
        pkt = good[:-20]
        pkt = pkt[:2] + struct.pack(">H", len(pkt) - 20) + pkt[4:]
    elif integ == "zero-hmac":
        good = encode(cls, tid, attrs, b"x", False)
        pkt = good[:-20] + b"\0" * 20
    elif integ == "valid":
        pkt = encode(cls, tid, attrs, right_key, spec.get("fingerprint", True))
    return pkt


def classify_rx(hexdata):
    d = bytes.fromhex(hexdata)
    if len(d) >= 20 and d[0] < 4 and d[4:8] == struct.pack(">I", pystun.MAGIC):
        t = struct.unpack(">H", d[:2])[0]
        c = t & 0x0110
        return {0x0000: "stun-request", 0x0100: "stun-success-response", 0x0110: "stun-error-response", 0x0010: "stun-indication"}[c]
    return "application-data"


INTEG = ["none", "wrong-key", "other-sides-key", "valid-then-altered", "truncated-at-integrity", "zero-hmac"]


def gen_spec(r, allow_valid=False):
    spec = {"cls": r.choice(["request"] * 5 + ["success", "success", "error", "indication"]), "integrity": r.choice(INTEG), "user": r.choice(["right", "right", "wrong", "reversed", "none"]),
            "use_candidate": r.random() < 0.5, "role": r.choice(["controlling", "controlled", "none"]), "fingerprint": r.random() < 0.7}
    if r.random() < 0.2:
        spec = {"cls": "raw", "raw": r.choice(["empty", "empty", "one-byte", "short-header", "garbage", "rtp-like", "header-only-lying-length"]), "integrity": "n/a", "user": "n/a"}
    return spec


def attack_case(P, r, honest, stats, viol, respond="nointegrity", specs=None, start_at=None):
    setup = P.rpc({"op": "setup", "aControlling": r.random() < 0.5, "relay": True})
    repeat = specs is not None
    if specs is None:
        specs = [gen_spec(r) for _ in range(r.choice([1, 3, 6]))]
        start_at = r.choice([0, 150])
    packets = []
    for sp in specs:
        when = sp.get("when") or r.choice(["before", "during", "after"])
        at = {"before": r.randrange(0, max(1, start_at)), "during": start_at + r.randrange(0, 600), "after": start_at + 700 + r.randrange(0, 200)}[when]
        sp["when"] = when
        packets.append({"hex": forged(r, setup, sp).hex(), "at": at})
    marker = b"\xee" + r.randbytes(15)
    out = P.rpc({"op": "run", "honest": honest, "packets": packets, "startAt": start_at, "watchdog": 8000, "linger": 250, "minRun": 900, "victimSendsAfter": True,
                 "victimPayload": marker.hex(), "payloads": [{"from": "a", "hex": (b"\xfa" + r.randbytes(20)).hex()}], "autoRespond": respond})
    stats["attack_cases"] += 1
    stats["forged_packets"] += len(specs)
    w = {"forged": specs, "honest_peer_present": honest, "attacker_received": [classify_rx(x["hex"]) for x in out["attackerRx"]], "victim_log": out["b"]["log"]}
    for x in out["attackerRx"]:
        k = classify_rx(x["hex"])
        if k == "stun-error-response":
            stats["error_responses_to_attacker"] += 1
            continue
        kinds = sorted(set((s["cls"], s["integrity"]) for s in specs))
        viol.append(("victim-answers-unauthenticated %s forged=%s/%s" % (k, kinds[0][0], kinds[0][1]), "the component sent a %s to a sender that does not know the session credentials" % k, w))
        break
    if not honest and (out["b"]["connected"] or out["b"]["connectedSignals"]):
        viol.append(("connected-without-authenticated-peer", "the component reports connected although only unauthenticated traffic arrived", w))
    att_port = str(setup["attackerPort"])
    for l in out["b"]["log"]:
        if "ICE pair selected" in l and ("port %s " % att_port) in l.split("(local")[0]:
            viol.append(("pair-selected-for-attacker", "the component selected a pair towards the attacker's address", w))
    if honest:
        if not (out["a"]["connected"] and out["b"]["connected"]):
            if out["timedOut"]:
                return ("under-attack-timeout", specs, start_at, w)
        elif marker.hex() not in out["a"]["received"]:
            viol.append(("data-diverted", "application data sent after the honest connect did not arrive at the honest peer", w))
        else:
            stats["honest_under_attack_ok"] += 1
    else:
        stats["attack_only_ok"] += 1
    return None


def control_case(P, r, stats, viol):
    """positive control: a sender that DOES know the credentials gets an answer (so silence above is not vacuous)"""
    setup = P.rpc({"op": "setup", "aControlling": True, "relay": True})
    sp = {"cls": "request", "integrity": "valid", "user": "right", "use_candidate": False, "role": "controlling", "fingerprint": True}
    out = P.rpc({"op": "run", "honest": False, "packets": [{"hex": forged(r, setup, sp).hex(), "at": 100}], "startAt": 0, "watchdog": 3000, "minRun": 500, "linger": 200})
    kinds = [classify_rx(x["hex"]) for x in out["attackerRx"]]
    if "stun-success-response" in kinds:
        stats["positive_control_answered"] += 1
    else:
        viol.append(("valid-check-not-answered", "a Binding request with valid integrity under the session credentials got no success response", {"received": kinds, "victim_log": out["b"]["log"]}))


def honest_case(P, r, a_controls, reverse, drop_ab, drop_ba, sizes, stats, viol):
    # every second negotiation has a STUN server (run by the harness, answering with a mapped address of its own choosing), so that the agents
    # also advertise server-reflexive candidates
    setup = P.rpc({"op": "setup", "aControlling": a_controls, "relay": True, "stun": len(sizes) % 4 != 0})
    # RFC 5245 4.1.2.1 priorities
    for side in ("a", "b"):
        for c in setup[side]["candidates"]:
            stats["candidates"] += 1
            stats["candidates_type_%d" % c["type"]] += 1
            pr = int(c["priority"])
            if (pr >> 24) != TYPE_PREF.get(c["type"]) or (pr & 0xff) != 256 - c["component"]:
                viol.append(("candidate-priority type=%s" % c["type"], "candidate priority %d is not 2^24*typePref + 2^8*localPref + (256 - component)" % pr, {"candidate": c}))
    payloads = []
    for i, n in enumerate(sizes):
        frm = "a" if i % 2 == 0 else "b"
        payloads.append({"from": frm, "hex": "" if n == 0 else (bytes([0x80 + i % 100]) + r.randbytes(n - 1)).hex() if n > 1 else bytes([0x80 + i % 100]).hex()})
    out = P.rpc({"op": "run", "honest": True, "packets": [], "startAt": 0, "watchdog": 12000, "linger": 250, "dropAB": drop_ab, "dropBA": drop_ba, "reverseCandidates": reverse, "payloads": payloads})
    stats["honest_cases"] += 1
    w = {"a_controlling": a_controls, "drop_first_transmissions": {"a->b": drop_ab, "b->a": drop_ba}, "relay_transactions": out["relayTx"], "elapsed_ms": out["elapsed"], "a_log": out["a"]["log"], "b_log": out["b"]["log"]}
    if not (out["a"]["connected"] and out["b"]["connected"]):
        if out["timedOut"] and out["a"]["connected"] != out["b"]["connected"]:
            # bounded progress instead of a bare deadline: one agent has been connected for many retransmission intervals (every pending
            # transaction has been retransmitted over a loss-free path by then) and the other still is not
            side = "a" if out["a"]["connected"] else "b"
            since = out["elapsed"] - max(0, out[side]["connectedAt"])
            if since > 6000:
                controlled_missing = (side == "a") == bool(a_controls)
                return ("one-sided", dict(w, connected_side=side, connected_for_ms=since, missing="controlled" if controlled_missing else "controlling"))
        if out["timedOut"]:
            return ("watchdog", w)
        viol.append(("honest-peers-not-connected", "two agents that exchanged credentials and candidates did not both reach connected", w))
        return None
    if out["a"]["connectedSignals"] != 1 or out["b"]["connectedSignals"] != 1:
        viol.append(("connected-signalled-%d-times" % max(out["a"]["connectedSignals"], out["b"]["connectedSignals"]), "connected() was emitted more than once", w))
    sent_a = [p["hex"] for p in payloads if p["from"] == "a"]
    sent_b = [p["hex"] for p in payloads if p["from"] == "b"]
    if sorted(out["b"]["received"]) != sorted(sent_a) or sorted(out["a"]["received"]) != sorted(sent_b):
        viol.append(("datagrams-not-delivered-unchanged", "application datagrams did not arrive exactly once and unchanged", dict(w, sent_a=len(sent_a), got_b=len(out["b"]["received"]), sent_b=len(sent_b), got_a=len(out["a"]["received"]))))
    else:
        stats["honest_ok"] += 1
        stats["datagrams_ok"] += len(payloads)
    if drop_ab or drop_ba:
        stats["honest_with_loss_ok"] += 1
    return None


def worker(args):
    wid, n_attack, honest_jobs, n_control = args
    r = vf.rng("c15", wid)
    viol, stats, inconc = [], collections.Counter(), []
    P = Proc()

    def guarded(fn, *a):
        nonlocal P
        try:
            return fn(P, *a)
        except (EOFError, BrokenPipeError) as e:
            err = str(e)
            viol.append(("crash " + (vf.san_signature(err) or "harness died"), "sanitizer report / abnormal exit in the ICE code", {"stderr": err[-4000:]}))
            P = Proc()
            return None

    for i in range(n_control):
        guarded(control_case, r, stats, viol)
    for i in range(n_attack):
        e = guarded(attack_case, r, i % 3 != 0, stats, viol)
        if e:
            # bounded progress: the honest peers did not connect while unauthenticated traffic arrived. Repeat with the same forged datagrams;
            # if it fails again and the same pair of agents connects at once when nobody interferes, the traffic had an effect
            e2 = guarded(attack_case, r, True, stats, viol, "nointegrity", e[1], e[2])
            if e2:
                e3 = guarded(attack_case, r, True, stats, viol, "nointegrity", [], 0)
                if not e3:
                    kinds = sorted(set("%s/%s" % (s_["cls"], s_.get("raw") or s_["integrity"]) for s_ in e[1]))
                    viol.append(("unauthenticated-traffic-blocks-honest-peers %s" % kinds[0], "two honest agents did not reach connected (twice) while datagrams from a sender without the credentials arrived, and connect when nobody interferes", e2[3]))
                else:
                    inconc.append("honest negotiation timed out with and without interference")
            else:
                stats["under_attack_timeout_not_reproduced"] += 1
    for (a_controls, reverse, dab, dba, sizes) in honest_jobs:
        e = guarded(honest_case, r, a_controls, reverse, dab, dba, sizes, stats, viol)
        if e and e[0] == "one-sided":
            # seen once: repeat; seen twice: the peers do not both reach the connected state
            e2 = guarded(honest_case, r, a_controls, reverse, dab, dba, sizes, stats, viol)
            if e2 and e2[0] == "one-sided":
                viol.append(("honest-peers-one-sided %s agent never connects" % e2[1]["missing"], "one agent reports connected, the other still does not %d ms later (loss confined to first transmissions), twice" % e2[1]["connected_for_ms"], e2[1]))
            elif e2:
                inconc.append("one-sided connection not reproduced: %s" % e2[0])
            continue
        if e and e[0] == "watchdog":
            # a wall-clock watchdog is never a verdict: retry once
            e2 = guarded(honest_case, r, a_controls, reverse, dab, dba, sizes, stats, viol)
            if e2 and e2[0] == "watchdog":
                inconc.append("honest negotiation did not finish within 12 s twice: %s" % json.dumps(e2[1])[:300])
    P.close()
    return viol, dict(stats), inconc


def main(tier, replay=None):
    V = vf.Verdict("C15", tier)
    vf.build_harness("ice")
    r = vf.rng("c15-main")
    W = vf.NPROC
    n_attack = (170 if tier == "quick" else 16000) // W + 1     # ~3 forged packets each
    honest = []
    subsets = [list(s) for k in range(0, 5) for s in itertools.combinations(range(4), k)]
    n_h = 40 if tier == "quick" else 2000
    for i in range(n_h):
        dab = subsets[i % len(subsets)]
        dba = r.choice(subsets) if i % 2 else []
        sizes = [r.choice([0, 1, 2, 16, 100, 576, 1200, 1400]) for _ in range(r.choice([2, 4, 8]))]
        honest.append((i % 2 == 0, (i // 2) % 2 == 0, dab, dba, sizes))
    with ProcessPoolExecutor(max_workers=W) as pool:
        res = list(pool.map(worker, [(w, n_attack, honest[w::W], 1) for w in range(W)]))
    stats = collections.Counter()
    for viol, st, inconc in res:
        for sig, what, w in viol:
            V.violation(sig, what, w)
        for i in inconc:
            V.inconc(i)
        stats.update(st)
    cov = {"evaluations": stats["forged_packets"] + stats["honest_cases"], "distinct_nontrivial": stats["attack_only_ok"] + stats["honest_under_attack_ok"] + stats["honest_ok"],
           "rule": "forged STUN datagrams built by an independent Python encoder (binding request / success / error / indication x integrity {absent, wrong key, the other side's key, valid value over altered content, cut off at the "
                   "integrity value, all-zero} x username {right, wrong, reversed, none} x USE-CANDIDATE x role attribute x fingerprint), and datagrams that are no STUN at all (empty, one byte, half a header, a header announcing more than follows, garbage, RTP-like), sent from an attacker socket to a listening component before, during and after an honest "
                   "negotiation or with no honest peer at all; honest negotiations through a relay that drops chosen first transmissions (every subset of the first 4 transactions) under both role assignments and candidate orders, "
                   "then unique datagrams of 0..1400 bytes both ways; observations: the attacker's receive log, connected()/isConnected(), 'ICE pair selected' log lines, the peers' received datagrams",
           "observed": dict(stats), "samples": [{"forged": {"cls": "request", "integrity": "none", "user": "right", "use_candidate": True}, "expected": "no datagram to the attacker"}]}
    floors = {"server_reflexive_candidates": stats["candidates_type_2"] > 0, "forged": stats["forged_packets"] >= 100, "positive_control": stats["positive_control_answered"] > 0, "honest_ok": stats["honest_ok"] > 0, "honest_with_loss": stats["honest_with_loss_ok"] > 0,
              "under_attack": stats["honest_under_attack_ok"] > 0}
    V.finish(cov, "exploration", ["loopback UDP, both agents and the relay in one process; loss is confined to first transmissions as the statement says", "host candidates and server-reflexive candidates from a STUN server run by the harness (no TURN server: no relayed candidates)",
                                  "a STUN error response to the attacker is recorded, not judged; a 30 s wall-clock watchdog firing twice makes a case inconclusive"], floors)
