"""C16 — the server routes only for authenticated clients and stamps their true address (engine: server)

The real QXmppServer runs in a harness process; raw scripted TCP clients (Python) play every order of client actions.
A properly authenticated victim is always online; unique markers tie every delivery to its send event.
"""
import base64, collections, hashlib, itertools, json, os, subprocess, sys, threading, time
from concurrent.futures import ProcessPoolExecutor
import vf, rawxmpp
from rawxmpp import Raw, HDR, local, plain

DOMAIN = "example.org"
CREDS = {"victim": "victim-pw-1", "mallory": "mallory-pw-2", "carol": "carol-pw-3"}
NS_SASL = "urn:ietf:params:xml:ns:xmpp-sasl"
NS_SASL2 = "urn:xmpp:sasl:2"
VICTIM_FULL = "victim@example.org/home"


class Server:
    def __init__(self):
        self.binary = vf.build_harness("server")
        self.start()

    def start(self):
        self.p = subprocess.Popen([self.binary], stdout=subprocess.PIPE, stderr=subprocess.PIPE, text=True, env=vf.env_for())
        self.events = []
        line = self.p.stdout.readline()
        self.port = json.loads(line)["port"]
        self.t = threading.Thread(target=self._pump, daemon=True)
        self.t.start()

    def _pump(self):
        for line in self.p.stdout:
            try:
                self.events.append(json.loads(line))
            except Exception:
                pass

    def alive(self):
        return self.p.poll() is None

    def stop(self):
        try:
            self.p.kill()
            self.p.wait(timeout=5)
        except Exception:
            pass
        err = ""
        try:
            err = self.p.stderr.read()
        except Exception:
            pass
        return err


def login(port, user, resource):
    c = Raw(port)
    c.send(HDR % DOMAIN)
    c.read(lambda e: local(e) == "features")
    c.send("<auth xmlns='%s' mechanism='PLAIN'>%s</auth>" % (NS_SASL, plain(user, CREDS[user])))
    if c.read(lambda e: local(e) in ("success", "failure")) is None:
        return None
    c.send(HDR % DOMAIN, restart=True)
    c.read(lambda e: local(e) == "features")
    c.send("<iq type='set' id='bind-v'><bind xmlns='urn:ietf:params:xml:ns:xmpp-bind'><resource>%s</resource></bind></iq>" % resource)
    if c.read(lambda e: local(e) == "iq") is None:
        return None
    c.send("<presence/>")
    return c


# ---- attacker actions; each returns a short description; state is kept in `st`

def act(a, c, st, case):
    """performs action a on raw connection c; st: dict(authed_as, bound, markers)"""
    kind = a[0]
    # the server's XML framing cannot recover from an element before the stream header or from a second header that does not
    # follow an authentication: nothing will be answered from then on (no point in waiting long)
    if kind != "open" and not st["opened"]:
        st["broken"] = True
    T = (lambda t: 0.02) if st.get("broken") else (lambda t: t)
    if kind == "open":
        if st["opened"] and not st.get("restart_ok"):
            st["broken"] = True
            T = lambda t: 0.02
        st["restart_ok"] = False
        c.send(HDR % (DOMAIN if a[1] == "right" else "wrong.example"), restart=True)
        c.read(lambda e: local(e) in ("features", "error"), timeout=T(0.4))
        st["opened"] = True
        st["streams"] += 1
    elif kind == "auth":
        mech, cred = a[1], a[2]
        user = "mallory"
        if mech == "PLAIN":
            if cred == "right":
                payload = plain(user, CREDS[user])
            elif cred == "wrong":
                payload = plain(user, "not-the-password")
            elif cred == "victim-wrong":
                user = "victim"; payload = plain("victim", "guess")
            elif cred == "prefix":
                payload = plain(user, CREDS[user][:-3])
            elif cred == "empty-pw":
                payload = plain(user, "")
            elif cred in ("unknown-empty", "unknown-wrong"):
                user = "ghost"; payload = plain("ghost", "" if cred == "unknown-empty" else "guess")
            elif cred == "authzid-victim":
                payload = base64.b64encode(b"victim@example.org\0mallory\0" + CREDS["mallory"].encode()).decode()
            else:
                payload = "!!!not-base64!!!"
        elif mech == "ANONYMOUS":
            payload = "="
        elif mech == "DIGEST-MD5":
            payload = "="
            if cred.startswith("unknown"):
                user = "ghost"    # an account the password checker does not know
        else:
            payload = plain(user, CREDS[user])
        st["last_auth"] = (mech, cred, user)
        tag = "auth" if not a[3:] or a[3] != "sasl2" else "authenticate"
        if tag == "auth":
            c.send("<auth xmlns='%s' mechanism='%s'>%s</auth>" % (NS_SASL, mech, payload))
        else:
            c.send("<authenticate xmlns='%s' mechanism='%s'><initial-response>%s</initial-response></authenticate>" % (NS_SASL2, mech, payload))
        # an authentication element is always answered on an open stream (success, failure, challenge or the connection is closed)
        el = c.read(lambda e: local(e) in ("success", "failure", "challenge"), timeout=T(1.0 if st["opened"] and not st["authed_as"] else 0.06))
        if el is not None and local(el) == "success":
            st["success_seen"].append((mech, cred, user))
            st["authed_as"] = user
            st["restart_ok"] = True
        if el is not None and local(el) == "challenge" and mech == "DIGEST-MD5":
            # answer the challenge with right or wrong credentials (RFC 2831)
            ch = dict(p.split("=", 1) for p in base64.b64decode(el.text or "").decode().replace('"', "").split(",") if "=" in p)
            nonce, cnonce, uri = ch.get("nonce", ""), "cn0nce", "xmpp/" + DOMAIN
            pw = CREDS[user] if cred == "right" else "" if cred in ("unknown-empty", "empty-pw") else "wrong-pw"
            h = lambda b: hashlib.md5(b).digest()
            hx = lambda b: hashlib.md5(b).hexdigest().encode()
            a1 = h(("%s:%s:%s" % (user, DOMAIN, pw)).encode()) + (":%s:%s" % (nonce, cnonce)).encode()
            resp = hx(hx(a1) + (":%s:00000001:%s:auth:" % (nonce, cnonce)).encode() + hx(("AUTHENTICATE:" + uri).encode())).decode()
            msg = 'username="%s",realm="%s",nonce="%s",cnonce="%s",nc=00000001,qop=auth,digest-uri="%s",response=%s,charset=utf-8' % (user, DOMAIN, nonce, cnonce, uri, resp)
            c.send("<response xmlns='%s'>%s</response>" % (NS_SASL, base64.b64encode(msg.encode()).decode()))
            el = c.read(lambda e: local(e) in ("success", "failure", "challenge"), timeout=0.5)
            if el is not None and local(el) == "challenge":
                c.send("<response xmlns='%s'/>" % NS_SASL)
                el = c.read(lambda e: local(e) in ("success", "failure"), timeout=0.5)
            if el is not None and local(el) == "success":
                st["success_seen"].append((mech, cred, user))
                st["authed_as"] = user
                st["restart_ok"] = True
    elif kind == "burst":
        # a client that does not wait: authentication element, resource binding and stanzas leave in ONE write, so the server handles the
        # stanzas while the password checker has not answered yet (its reply is asynchronous)
        cred, tagname = a[1], a[2]
        user = "victim" if cred == "victim-wrong" else "mallory"
        pw = {"right": CREDS["mallory"], "wrong": "not-the-password", "victim-wrong": "guess", "empty-pw": ""}[cred]
        approved = user if cred == "right" else None
        st["n"] += 1
        rid = "bind-%d-%d" % (case, st["n"])
        m1, m2 = "atk-%d-%d-m" % (case, st["n"]), "atk-%d-%d-i" % (case, st["n"])
        if tagname == "auth":
            x = "<auth xmlns='%s' mechanism='PLAIN'>%s</auth>" % (NS_SASL, plain(user, pw))
        else:
            x = "<authenticate xmlns='%s' mechanism='PLAIN'><initial-response>%s</initial-response></authenticate>" % (NS_SASL2, plain(user, pw))
        x += "<iq type='set' id='%s'><bind xmlns='urn:ietf:params:xml:ns:xmpp-bind'><resource>evil</resource></bind></iq>" % rid
        x += "<message to='%s' id='%s' type='chat'><body>%s</body></message>" % (VICTIM_FULL, m1, m1)
        x += "<iq to='%s' id='%s' type='get'><query xmlns='jabber:iq:version' marker='%s'/></iq>" % (VICTIM_FULL, m2, m2)
        was = st["authed_as"]
        for mk_, tg_ in ((m1, "message"), (m2, "iq")):
            st["markers"][mk_] = {"authed_as": was or approved, "bound": st["bound"], "from_class": "absent", "to_class": "victim-full", "tag": tg_, "in_one_write_with": "%s PLAIN %s" % (tagname, cred)}
        c.send(x)
        st["bursts"] = st.get("bursts", 0) + 1
        n_before = len(c.elements)
        c.drain(0.12 if st["opened"] and not st.get("broken") else 0.02)
        for el in c.elements[n_before:]:
            if local(el) == "success" and not was:
                st["success_seen"].append(("PLAIN", cred, user))
                st["authed_as"] = user
                st["restart_ok"] = True
            if local(el) == "iq" and el.get("id") == rid:
                st["iq_replies"].append(("bind", rid, el.get("type"), was or approved))
                if el.get("type") == "result":
                    st["bound"] = True
    elif kind == "abort":
        c.send("<abort xmlns='%s'/>" % NS_SASL)
        c.drain(0.03)
    elif kind == "response":
        c.send("<response xmlns='%s'>%s</response>" % (NS_SASL, plain("mallory", CREDS["mallory"])))
        c.drain(0.03)
    elif kind == "bind":
        st["n"] += 1
        rid = "bind-%d-%d" % (case, st["n"])
        c.send("<iq type='set' id='%s'><bind xmlns='urn:ietf:params:xml:ns:xmpp-bind'><resource>%s</resource></bind></iq>" % (rid, a[1] if len(a) > 1 else "evil"))
        el = c.read(lambda e: local(e) == "iq" and e.get("id") == rid, timeout=T(0.5 if st["authed_as"] else 0.08))
        st["iq_replies"].append(("bind", rid, el is not None and el.get("type"), st["authed_as"]))
        if el is not None and el.get("type") == "result":
            st["bound"] = True
    elif kind == "session":
        st["n"] += 1
        rid = "sess-%d-%d" % (case, st["n"])
        c.send("<iq type='set' id='%s'><session xmlns='urn:ietf:params:xml:ns:xmpp-session'/></iq>" % rid)
        el = c.read(lambda e: local(e) == "iq" and e.get("id") == rid, timeout=T(0.3 if st["authed_as"] else 0.06))
        st["iq_replies"].append(("session", rid, el is not None and el.get("type"), st["authed_as"]))
    elif kind == "stanza":
        tag, frm, to = a[1], a[2], a[3]
        st["n"] += 1
        marker = "atk-%d-%d" % (case, st["n"])
        fa = {"absent": "", "own": " from='mallory@example.org/evil'", "own-bare": " from='mallory@example.org'", "victim": " from='%s'" % VICTIM_FULL, "victim-bare": " from='victim@example.org'",
              "third": " from='carol@example.org/x'", "empty": " from=''"}[frm]
        ta = {"victim-full": " to='%s'" % VICTIM_FULL, "victim-bare": " to='victim@example.org'", "domain": " to='%s'" % DOMAIN, "absent": ""}[to]
        if tag == "message":
            x = "<message%s%s id='%s' type='chat'><body>%s</body></message>" % (fa, ta, marker, marker)
        elif tag == "presence":
            x = "<presence%s%s id='%s'><status>%s</status></presence>" % (fa, ta, marker, marker)
        else:
            x = "<iq%s%s id='%s' type='get'><query xmlns='jabber:iq:version' marker='%s'/></iq>" % (fa, ta, marker, marker)
        if tag == "smuggle":
            # a second stanza hidden, properly escaped, inside a namespace URI / attribute value / text / prefixed declaration of a legal one:
            # it must arrive (if at all) as data of the first, never as a stanza of its own with a from of the sender's choosing
            import xml.sax.saxutils as su
            inner_id = marker + "-inner"
            where = a[4]
            close = {"ns": "urn:x\"/>", "attr": "v\"/>", "text": "", "prefix-ns": "urn:p\"/>"}[where]
            hidden = "%s</message><message from=\"admin@%s\" to=\"%s\" id=\"%s\" type=\"chat\"><body>%s</body><x xmlns=\"urn:y" % (close, DOMAIN, VICTIM_FULL, inner_id, inner_id)
            esc = su.escape(hidden, {'"': "&quot;", "'": "&apos;"})
            if where == "ns":
                x = "<message%s%s id='%s' type='chat'><body>%s</body><x xmlns='%s'/></message>" % (fa, ta, marker, marker, esc)
            elif where == "attr":
                x = "<message%s%s id='%s' type='chat'><body>%s</body><x xmlns='urn:z' a='%s'/></message>" % (fa, ta, marker, marker, esc)
            elif where == "prefix-ns":
                x = "<message%s%s id='%s' type='chat'><body>%s</body><p:x xmlns:p='%s'/></message>" % (fa, ta, marker, marker, esc)
            else:
                x = "<message%s%s id='%s' type='chat'><body>%s</body><x xmlns='urn:z'>%s</x></message>" % (fa, ta, marker, marker, esc)
            st["markers"][inner_id] = {"authed_as": st["authed_as"], "bound": st["bound"], "from_class": "hidden-in-" + where, "to_class": to, "tag": "smuggled-message", "smuggled": True}
        st["markers"][marker] = {"authed_as": st["authed_as"], "bound": st["bound"], "from_class": frm, "to_class": to, "tag": tag}
        c.send(x)
        if tag == "iq":
            el = c.read(lambda e: local(e) == "iq" and e.get("id") == marker, timeout=T(0.06))
            st["iq_replies"].append(("iq", marker, el is not None and el.get("type"), st["authed_as"]))


def run_case(srv, victim, case, word, viol, stats):
    n0 = len(srv.events)
    try:
        c = Raw(srv.port, timeout=1.0)
    except OSError:
        return "connect failed"
    st = {"authed_as": None, "bound": False, "markers": {}, "iq_replies": [], "success_seen": [], "n": 0, "opened": False, "streams": 0}
    for a in word:
        if c.closed:
            break
        act(a, c, st, case)
    c.drain(0.02)
    # end the attacker's stream, then fence on the victim's connection: a message to itself comes back after everything routed before
    c.send("</stream:stream>")
    c.drain(0.02)
    c.close()
    fence = "fence-%d" % case
    victim.send("<message to='%s' id='%s'><body>f</body></message>" % (VICTIM_FULL, fence))
    before = len(victim.elements)
    if victim.read(lambda e: local(e) == "message" and e.get("id") == fence, timeout=2.0) is None:
        return "victim fence lost"
    got = victim.elements[before:]
    w = {"attacker_script": [list(a) for a in word], "attacker_transcript": [(d, t[:300]) for d, t in c.log][-30:]}
    stats["cases"] += 1
    for el in got:
        mid = el.get("id") or ""
        if not mid.startswith("atk-"):
            continue
        info = st["markers"].get(mid)
        if info is None:
            continue
        stats["deliveries"] += 1
        frm = el.get("from") or ""
        ww = dict(w, delivered={"tag": local(el), "from": frm, "id": mid}, sender_state=info)
        if info.get("smuggled"):
            viol.append(("smuggled-stanza-delivered %s" % info["from_class"], "text hidden in a %s of a routed stanza arrived at the victim as a stanza of its own (from=%r)" % (info["from_class"][10:], frm), ww))
        elif info["authed_as"] is None:
            viol.append(("routed-before-authentication %s from=%s" % (info["tag"], info["from_class"]), "a stanza sent by a connection that had not authenticated was delivered to a logged-in user (from=%r)" % frm, ww))
        else:
            ok = frm in ("%s@%s" % (info["authed_as"], DOMAIN),) or frm.startswith("%s@%s/" % (info["authed_as"], DOMAIN))
            if not ok:
                viol.append(("delivered-with-foreign-from %s from=%s" % (info["tag"], info["from_class"]), "a routed stanza carries from=%r, the sender is authenticated as %s" % (frm, info["authed_as"]), ww))
            else:
                stats["stamped_ok"] += 1
                if info["tag"] == "smuggle":
                    stats["carrier_of_hidden_stanza_delivered"] += 1
    # replies / signals for unauthenticated connections
    for (what, rid, typ, authed) in st["iq_replies"]:
        if authed is None and typ in ("result",):
            viol.append(("unauthenticated-%s-answered" % what, "an unauthenticated connection got a %s result" % what, dict(w, reply=(what, rid, typ))))
        elif authed is None and typ == "error" and what == "iq":
            stats["unauth_iq_error_reply"] += 1
    new_events = srv.events[n0:]
    for e in new_events:
        if e["ev"] == "clientConnected" and st["authed_as"] is None and e["jid"] != VICTIM_FULL:
            viol.append(("clientConnected-without-authentication", "clientConnected(%s) fired for a connection that never authenticated" % e["jid"], w))
        # (the victim's own login is reported by the server process asynchronously and may land in the first case's window)
        if e["ev"] == "clientConnected" and e["jid"] != VICTIM_FULL and st["authed_as"] is not None and not e["jid"].startswith(st["authed_as"] + "@"):
            viol.append(("clientConnected-wrong-user", "clientConnected(%s) fired, the connection authenticated as %s" % (e["jid"], st["authed_as"]), w))
    # success only for approved credentials
    for (mech, cred, user) in st["success_seen"]:
        stats["auth_success"] += 1
        # (an authorization identity next to correct credentials is ignored by the server: the connection is mallory's)
        if not ((mech in ("PLAIN", "DIGEST-MD5") and cred in ("right", "authzid-victim")) or mech == "ANONYMOUS"):
            viol.append(("authentication-succeeds %s %s" % (mech, cred), "the server reported SASL success for credentials the password checker cannot have approved (%s, %s)" % (mech, cred), w))
    stats["pipelined_logins"] += st.get("bursts", 0)
    if st["authed_as"] is None:
        stats["unauthenticated_cases"] += 1
    return None


def alphabet(full):
    A = [("open", "right"), ("auth", "PLAIN", "right"), ("auth", "PLAIN", "wrong"), ("bind",), ("stanza", "message", "absent", "victim-bare"), ("stanza", "message", "victim", "victim-full"),
         ("stanza", "iq", "absent", "domain"), ("stanza", "presence", "absent", "victim-bare")]
    if full:
        A += [("open", "wrong"), ("auth", "PLAIN", "malformed"), ("auth", "PLAIN", "prefix"), ("auth", "PLAIN", "authzid-victim"), ("auth", "DIGEST-MD5", "right"), ("auth", "DIGEST-MD5", "wrong"), ("auth", "DIGEST-MD5", "unknown-empty"), ("auth", "DIGEST-MD5", "unknown-wrong"), ("auth", "DIGEST-MD5", "empty-pw"),
              ("auth", "PLAIN", "unknown-empty"), ("auth", "PLAIN", "unknown-wrong"), ("auth", "DIGEST-MD5", "unknown-empty", "sasl2"),
              ("auth", "ANONYMOUS", "x"), ("auth", "X-UNKNOWN", "x"), ("auth", "PLAIN", "right", "sasl2"), ("auth", "PLAIN", "wrong", "sasl2"), ("abort",), ("response",), ("session",),
              ("stanza", "message", "third", "victim-full"), ("stanza", "message", "own", "victim-full"), ("stanza", "message", "empty", "victim-bare"), ("stanza", "iq", "victim", "victim-full"),
              ("stanza", "message", "victim-bare", "absent"), ("stanza", "presence", "victim", "domain"),
              ("burst", "wrong", "auth"), ("burst", "victim-wrong", "auth"), ("burst", "right", "auth"), ("burst", "wrong", "authenticate"), ("burst", "empty-pw", "auth"),
              ("stanza", "smuggle", "absent", "victim-full", "ns"), ("stanza", "smuggle", "absent", "victim-full", "attr"), ("stanza", "smuggle", "own", "victim-bare", "text"), ("stanza", "smuggle", "absent", "victim-full", "prefix-ns")]
    return A


def gen_word(r, A, n):
    return [r.choice(A) for _ in range(n)]


def worker(args):
    wid, words = args
    viol, stats, inconc = [], collections.Counter(), []
    srv = Server()
    victim = login(srv.port, "victim", "home")
    if victim is None:
        srv.stop()
        raise vf.HarnessFailure("victim could not log in")
    case = wid * 1000000
    last = None

    def crashed():
        nonlocal srv, victim
        time.sleep(0.1)
        err = srv.stop()
        viol.append(("crash " + (vf.san_signature(err) or "server exited"), "the server process died while handling a client script",
                     {"attacker_script": [list(a) for a in (last or [])], "stderr": (err[:3000] + "\n[...]\n" + err[-3000:]) if len(err) > 6500 else err}))
        srv = Server()
        victim = login(srv.port, "victim", "home")

    for word in words:
        case += 1
        last = word
        try:
            err = run_case(srv, victim, case, word, viol, stats)
        except OSError:
            err = "socket error"
        if err:
            time.sleep(0.05)
            if not srv.alive():
                crashed()
                continue
            inconc.append(err)
            try:
                victim.close()
            except Exception:
                pass
            try:
                victim = login(srv.port, "victim", "home")
            except OSError:
                crashed()
    if not srv.alive():
        crashed()
    srv.stop()
    return viol, dict(stats), inconc


def main(tier, replay=None):
    V = vf.Verdict("C16", tier)
    vf.build_harness("server")
    r = vf.rng("c16")
    small, full = alphabet(False), alphabet(True)
    words = []
    depth = 4 if tier == "quick" else 5
    for d in range(1, depth + 1):
        for w in itertools.product(small, repeat=d):
            words.append(list(w))
    for w in itertools.product(full, repeat=2):
        words.append([("open", "right")] + list(w))
    for _ in range(3000 if tier == "quick" else 100000):
        words.append(gen_word(r, full, r.choice([3, 5, 8, 12])))
    for where in ("ns", "attr", "text", "prefix-ns"):
        for frm in ("absent", "own"):
            for to in ("victim-full", "victim-bare"):
                for k in range(1, 4):
                    words.append([("open", "right"), ("auth", "PLAIN", "right"), ("open", "right"), ("bind",)] + [("stanza", "smuggle", frm, to, where)] * k)
    # every credential variant of every mechanism right after the stream header, followed by what an accepted client would do
    for a_ in [x for x in full if x[0] == "auth"]:
        words.append([("open", "right"), a_, ("open", "right"), ("bind",), ("stanza", "message", "absent", "victim-full")])
    # pipelined logins: the burst right after the stream header, after a failed attempt, twice in a row, after a completed login
    for b in [x for x in full if x[0] == "burst"]:
        for pre in ([], [("auth", "PLAIN", "wrong")], [b], [("auth", "PLAIN", "right"), ("open", "right")]):
            for post in ([], [("bind",)], [("stanza", "message", "absent", "victim-full")], [("open", "right"), ("bind",), ("stanza", "message", "victim", "victim-full")]):
                words.append([("open", "right")] + pre + [b] + post)
    r.shuffle(words)
    W = vf.NPROC
    with ProcessPoolExecutor(max_workers=W) as pool:
        res = list(pool.map(worker, [(w, words[w::W]) for w in range(W)]))
    stats = collections.Counter()
    for viol, st, inconc in res:
        for sig, what, w in viol:
            V.violation(sig, what, w)
        for i in inconc:
            V.inconc(i)
        stats.update(st)
    cov = {"evaluations": stats["cases"], "distinct_nontrivial": stats["unauthenticated_cases"] + stats["stamped_ok"],
           "rule": "raw TCP client scripts against the real QXmppServer with a second, properly authenticated client online as victim: every word of length <= %d over an 8-letter alphabet {open stream, PLAIN right/wrong, bind, "
                   "message/presence/iq with from absent or victim's, to victim/domain}, every pair over a 27-letter alphabet (wrong domain, malformed / prefix / authzid credentials, DIGEST-MD5 right/wrong, ANONYMOUS, unknown mechanism, "
                   "SASL2 authenticate, abort, response without auth, session, from third/own/empty, and pipelined logins - authentication element, bind, message and iq in one write, so that the stanzas are handled while the password checker's asynchronous answer is still pending) after a stream open, and random words up to length 12; unique markers tie each delivery at the victim to the send event and the "
                   "sender's authentication state at that moment; the victim connection is fenced with a message to itself" % (depth, ),
           "observed": dict(stats), "samples": [{"attacker_script": [list(a) for a in words[0]]}]}
    floors = {"pipelined_logins": stats["pipelined_logins"] > 50, "cases": stats["cases"] > 1000, "stamped_ok": stats["stamped_ok"] > 0, "unauthenticated": stats["unauthenticated_cases"] > 100, "auth_success": stats["auth_success"] > 0, "carrier_delivered": stats["carrier_of_hidden_stanza_delivered"] > 0}
    V.finish(cov, "exploration", ["the server has no bundled extensions loaded (no roster/privacy logic): routing is by destination only", "server-to-server (dialback) paths are not exercised",
                                  "timing: attacker replies are awaited for at most 0.15-0.5 s; deliveries are fenced logically on the victim's connection"], floors)
