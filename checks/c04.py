"""C04 — with TLS required, no credential or stanza is sent before the link is encrypted (engine: wire)"""
import base64, collections, hashlib, itertools, json, os, sys
from concurrent.futures import ProcessPoolExecutor
import vf, wire
from wire import S

NS_TLS = "urn:ietf:params:xml:ns:xmpp-tls"
PW, USER = wire.PASSWORD, "alice"
TOKEN_SECRET = "fast-token-secret-98765"

LETTERS = {
    "H1": wire.hdr("sid-1", "1.0", True), "H0": wire.hdr("sid-2", None, True), "H09": wire.hdr("sid-3", "0.9", True), "Hnoid": wire.hdr("x", "1.0", False), "H0noid": wire.hdr("x", None, False),
    "Ftls": wire.features(wire.F_STARTTLS), "Ftls+mech": wire.features(wire.F_STARTTLS, wire.f_mechs(("PLAIN", "SCRAM-SHA-1"))), "Ftlsreq+all": wire.features(wire.F_STARTTLS_REQ, wire.f_mechs(("PLAIN",)), wire.f_sasl2(("PLAIN",), fast=("HT-SHA-256-NONE",)), wire.F_LEGACY, wire.F_BIND, wire.F_SM),
    "Fmech": wire.features(wire.f_mechs(("PLAIN", "SCRAM-SHA-1", "DIGEST-MD5"))), "Flegacy": wire.features(wire.F_LEGACY), "Fsasl2": wire.features(wire.f_sasl2(("PLAIN", "SCRAM-SHA-1"), fast=("HT-SHA-256-NONE",))),
    "Fbind": wire.features(wire.F_BIND, wire.F_SM), "Fempty": wire.features(), "Fplain": wire.features(wire.f_mechs(("PLAIN",))),
    "bind-result": "<iq type='result' id='$ID'><bind xmlns='urn:ietf:params:xml:ns:xmpp-bind'><jid>%s</jid></bind></iq>" % wire.JID,
    "roster-result": "<iq type='result' id='$ID'><query xmlns='jabber:iq:roster'/></iq>",
    "proceed": "<proceed xmlns='%s'/>" % NS_TLS, "tlsfail": "<failure xmlns='%s'/>" % NS_TLS,
    "legacy-fields": "<iq type='result' id='$ID'><query xmlns='jabber:iq:auth'><username/><password/><digest/><resource/></query></iq>",
    "legacy-fields-anyid": "<iq type='result' id='qxmpp3'><query xmlns='jabber:iq:auth'><username/><password/><resource/></query></iq>",
    "iq-get-ping": "<iq type='get' id='srv-ping' from='example.org'><ping xmlns='urn:xmpp:ping'/></iq>",
    "iq-get-version": "<iq type='get' id='srv-ver' from='example.org'><query xmlns='jabber:iq:version'/></iq>",
    "iq-get-disco": "<iq type='get' id='srv-disco' from='example.org'><query xmlns='http://jabber.org/protocol/disco#info'/></iq>",
    "iq-result": "<iq type='result' id='$ID'/>", "iq-result-anyid": "<iq type='result' id='qxmpp3'/>",
    "sm-r": "<r xmlns='urn:xmpp:sm:3'/>", "success": "<success xmlns='%s'/>" % wire.NS_SASL, "challenge": "<challenge xmlns='%s'>cj1hYmMscz1kZWYsaT0x</challenge>" % wire.NS_SASL,
    "success2": "<success xmlns='urn:xmpp:sasl:2'><authorization-identifier>%s</authorization-identifier></success>" % wire.JID,
    "message": "<message from='bob@example.org/x' type='chat' id='m1'><body>hello</body><request xmlns='urn:xmpp:receipts'/></message>",
    "presence-sub": "<presence from='bob@example.org' type='subscribe'/>",
    "stream-error": "<stream:error><host-unknown xmlns='urn:ietf:params:xml:ns:xmpp-streams'/></stream:error>",
    "see-other": "<stream:error><see-other-host xmlns='urn:ietf:params:xml:ns:xmpp-streams'>127.0.0.1:$PORT</see-other-host></stream:error>",
}
SMALL = ["H1", "H0", "Ftls", "Ftls+mech", "Fmech", "Flegacy", "Fsasl2", "Fbind", "proceed", "tlsfail", "legacy-fields", "iq-get-version", "iq-result", "success", "message", "see-other"]

CONFIGS = {
    "default": {},
    "legacy-on": {"nonsasl": True},
    "legacy-plain": {"nonsasl": True, "nonsaslMech": "plain", "sasl": False},
    "sasl2+fast": {"sasl2": True, "userAgent": True, "fast": True, "token": {"mech": "HT-SHA-256-NONE", "secret": TOKEN_SECRET}},
    "sasl-off": {"sasl": False, "nonsasl": True, "sasl2": False},
    "prefer-plain": {"mechanism": "PLAIN"},
    "receipts": {"managers": ["receipts", "carbons2"]},
    "keepalive": {"keepAlive": 1},
    "keepalive+sasl2": {"keepAlive": 1, "sasl2": True, "userAgent": True},
}


def secrets(stream_ids):
    out = {"password": PW.encode(), "plain-b64": base64.b64encode(b"\0" + USER.encode() + b"\0" + PW.encode()), "token-secret": TOKEN_SECRET.encode(),
           "ht-hmac-b64": base64.b64encode(USER.encode() + b"\0" + __import__("hmac").new(TOKEN_SECRET.encode(), b"Initiator", "sha256").digest())}
    for sid in stream_ids:
        out["xep0078-digest-" + sid] = hashlib.sha1((sid + PW).encode()).hexdigest().encode()
    return out


def build(word, cfg, positive=False):
    steps = [wire.client(tls="required", **CONFIGS[cfg]), dict(op="connect"), dict(op="await_accept", rel=0), wire.A("stream:stream", timeout=1000)]
    for i, l in enumerate(word):
        if l == "TLS":
            continue
        if l == "proceed" and i + 1 < len(word) and word[i + 1] == "TLS":
            # a server that really negotiates TLS (positive control), provided the client asked for it
            steps.append(dict(op="send", xml=LETTERS[l], startTls=True, ifRequested="starttls", timeout=1500))
            steps.append(dict(op="settle", quiet=6, timeout=400))
            continue
        if l == "sm-enabled":
            steps.append(dict(op="send", xml="<enabled xmlns='urn:xmpp:sm:3' id='sm-c04' resume='true'/>", smOn=True))
            steps.append(dict(op="settle", quiet=6, timeout=400))
            continue
        if l == "cut":
            steps.append(dict(op="cut"))
            steps.append(dict(op="wait_signal", name="disconnected", optional=True, timeout=1000))
            continue
        if l == "reconnect":
            steps.append(dict(op="connect"))
            steps.append(dict(op="await_accept", rel=0, optional=True, timeout=1000))
            continue
        if l.startswith("sleep"):
            steps.append(dict(op="sleep", ms=int(l[5:])))
            continue
        if l == "see-other+close":
            # a real server closes the connection after the redirecting stream error
            steps.append(S(LETTERS["see-other"]))
            steps.append(dict(op="cut", graceful=True))
            steps.append(dict(op="await_accept", rel=1, optional=True, timeout=600))
            steps.append(dict(op="settle", quiet=6, timeout=400))
            continue
        steps.append(S(LETTERS[l]))
        steps.append(dict(op="settle", quiet=6, timeout=400))
    steps.append(dict(op="settle", quiet=20, timeout=600))
    steps.append(dict(op="query", tag="end"))
    return steps


def judge(word, cfg, out, viol, stats):
    j = out["journal"]
    w = {"server_script": list(word), "client_config": cfg}
    sec = secrets(["sid-1", "sid-2", "sid-3", "x", ""])
    header_version = {}
    first_tx_ok = {}
    last_tx_gives_up = False
    tls_done = {}
    must_give_up = False
    header_sent, features_sent, requested_tls = {}, {}, {}
    for e in j:
        if e["ev"] == "srv_tls_established":
            tls_done[e["conn"]] = e["t"]
        if e["ev"] == "srv_rx" and e.get("tag") == "starttls":
            requested_tls[e["conn"]] = "pending"
        if e["ev"] == "srv_tx":
            last_tx_gives_up = False
        if e["ev"] == "srv_tx" and e["conn"] not in first_tx_ok:
            first_tx_ok[e["conn"]] = "<stream:stream" in e["xml"]
        if e["ev"] == "srv_tx" and not e.get("encrypted"):
            x, c = e["xml"], e["conn"]
            if not first_tx_ok.get(c):
                continue   # the server never opened a well-formed stream on this connection: the client cannot read any of it
            if "<stream:stream" in x:
                header_sent[c] = True
                features_sent[c] = False
            if "<stream:features" in x:
                first = header_sent.get(c) and not features_sent.get(c) and not requested_tls.get(c)
                features_sent[c] = True
                # the client's decision point: the first features of an unencrypted stream do not offer STARTTLS
                if first and "xmpp-tls" not in x.split("</stream:features>")[0] and "version='1.0'" in header_version.get(c, x):
                    must_give_up = last_tx_gives_up = True
            if "<failure xmlns='%s'" % NS_TLS in x and requested_tls.get(c) == "pending":
                must_give_up = last_tx_gives_up = True
            if ("<failure xmlns='%s'" % NS_TLS in x or "<proceed xmlns='%s'" % NS_TLS in x) and requested_tls.get(c):
                requested_tls[c] = "answered"
            if "<stream:stream" in x:
                header_version[c] = x.split(">")[1] if x.startswith("<?xml") else x.split(">")[0]
        if e["ev"] != "srv_rx" or e.get("encrypted"):
            if e["ev"] == "srv_rx" and e.get("encrypted") and e.get("kind") == "element":
                stats["elements_after_tls"] += 1
                if e["tag"] in ("auth", "authenticate") :
                    stats["credentials_after_tls"] += 1
            continue
        stats["plaintext_elements"] += 1
        if e["kind"] == "header":
            blob = json.dumps(e.get("attrs", {}))
        elif e["kind"] == "streamclose":
            continue
        else:
            blob = e.get("xml", "")
            tag, ns = e["tag"], e.get("ns", "")
            if tag == "starttls" and ns == NS_TLS:
                stats["starttls_requests"] += 1
            elif tag in ("message", "presence", "iq"):
                child = "%s|%s" % (e.get("child"), e.get("childns"))
                kind = "legacy-auth" if e.get("childns") == "jabber:iq:auth" else ("bind" if e.get("child") == "bind" else tag)
                trig = trigger_of(word)
                viol.append(("cleartext %s %s trigger=%s" % (kind, e.get("type") or "-", trig), "a %s stanza (%s) was sent over the unencrypted connection although TLS is required" % (tag, child), dict(w, element=blob[:600])))
            elif ns in (wire.NS_SASL, "urn:xmpp:sasl:2") and tag in ("auth", "response", "abort", "authenticate"):
                viol.append(("cleartext sasl-%s trigger=%s" % (tag, trigger_of(word)), "a SASL <%s/> was sent over the unencrypted connection although TLS is required" % tag, dict(w, element=blob[:600])))
            else:
                stats["other_plaintext_nonza:%s" % tag] += 1
        for name, s in sec.items():
            if s and s.decode() in blob:
                viol.append(("cleartext secret=%s trigger=%s" % (name.split("-sid")[0].split("-x")[0], trigger_of(word)), "the secret '%s' occurs in bytes sent over the unencrypted connection" % name, dict(w, element=blob[:600])))
    q = next((e for e in j if e["ev"] == "query" and e["tag"] == "end"), None)
    # judged only when the event that makes encryption impossible is the last thing the server did
    if must_give_up and last_tx_gives_up and not tls_done:
        stats["must_give_up"] += 1
        if q and (q["state"] != 0 or q["isConnected"]):
            viol.append(("did-not-give-up trigger=%s" % trigger_of(word), "encryption could not be negotiated but the client did not disconnect (state=%s)" % q["state"], w))
        else:
            stats["gave_up_ok"] += 1
    if tls_done:
        stats["tls_sessions"] += 1
        if any(e["ev"] == "cli_sig" and e["name"] == "connected" for e in j):
            stats["sessions_established_over_tls"] += 1
            if "reconnect" in word and len(tls_done) > 1:
                stats["second_connection_encrypted_again"] += 1
    if any(e["ev"] == "cli_sig" and e["name"] == "connected" for e in j) and not tls_done:
        viol.append(("session-without-tls trigger=%s" % trigger_of(word), "the client reported an established session although the link was never encrypted", w))


def trigger_of(word):
    """coarse description of the server behaviour (for stable signatures)"""
    w = list(word)
    if "reconnect" in w:
        return "second-connection-after-a-lost-resumable-session"
    if any(l in ("H0", "H09", "H0noid") for l in w):
        return "stream-header-without-1.0-version"
    for l in w:
        if l in ("success", "success2"):
            return "unsolicited-success"
    for l in w:
        if l.startswith("iq-get") or l in ("message", "presence-sub"):
            return "server-stanza-before-tls"
    for l in w:
        if l.startswith("legacy-fields") or l.startswith("iq-result"):
            return "iq-result-before-tls"
    for l in w:
        if l in ("see-other", "see-other+close"):
            return "redirect"
    return "features:" + "+".join(sorted(set(l for l in w if l.startswith("F"))))[:60]


def worker(args):
    wid, jobs = args
    binary = vf.build_harness("wire")
    cases = [dict(steps=build(word, cfg), timeout=1200, stopOnStall=False) for (word, cfg) in jobs]
    outs, crashes = wire.run_cases(binary, cases)
    viol, stats = [], collections.Counter()
    for rq, info in crashes:
        viol.append(("crash " + vf.crash_sig(info), "sanitizer report / abnormal exit of the client during negotiation", {"stderr": info["stderr"][-4000:]}))
    for out, (word, cfg) in zip(outs, jobs):
        if not out:
            continue
        stats["scripts"] += 1
        judge(word, cfg, out, viol, stats)
    return viol, dict(stats)


def main(tier, replay=None):
    V = vf.Verdict("C04", tier)
    vf.build_harness("wire")
    r = vf.rng("c04")
    jobs = []
    depth = 3 if tier == "quick" else 4
    cfgs = ["default", "legacy-on", "sasl2+fast"] if tier == "quick" else list(CONFIGS)
    for d in range(1, depth + 1):
        for w in itertools.product(SMALL, repeat=d):
            if d >= 3 and w[0] not in ("H1", "H0"):
                continue   # the client waits for a header first; longer words without one only repeat shorter ones
            for cfg in (cfgs if d < depth else cfgs[:2] if tier == "quick" else cfgs[:4]):
                jobs.append((w, cfg))
    # positive control: a server that really does STARTTLS, then offers authentication
    for cfg in CONFIGS:
        for f1 in ("Ftls", "Ftls+mech", "Ftlsreq+all"):
            for f2 in ("Fmech", "Fsasl2", "Flegacy", "Ftlsreq+all"):
                jobs.append((("H1", f1, "proceed", "TLS", "H1", f2), cfg))
    # a session that was properly encrypted and authenticated, then moved elsewhere by the server: the new link is plain again
    # (only PLAIN is offered after TLS: a bare <success/> is a complete PLAIN exchange, for SCRAM it would rightly be refused)
    authed = ("H1", "Ftls+mech", "proceed", "TLS", "H1", "Fplain", "success", "H1")
    for cfg in ("default", "prefer-plain", "receipts"):
        for tail in [(so,) + w for so in ("see-other", "see-other+close") for d in (1, 2) for w in itertools.product(["H1", "Fbind", "Fmech", "Fempty", "Ftls", "iq-get-version", "message"], repeat=d)]:
            jobs.append((authed + tail, cfg))
            jobs.append((authed + ("Fbind", "iq-result") + tail, cfg))
    # the same with a session that is completely established (bound, roster fetched, optionally stream management) when the redirect arrives:
    # whatever the client remembers of that session, the new link is plain until STARTTLS has been done there
    for with_sm in (True, False):
        est = ("H1", "Ftls+mech", "proceed", "TLS", "H1", "Fplain", "success", "H1", "Fbind", "bind-result") + (("sm-enabled",) if with_sm else ()) + ("roster-result",)
        for cfg in ("default", "receipts", "keepalive"):
            for so in ("see-other", "see-other+close"):
                for d in ((1, 2) if cfg == "default" else (1,)):
                    for w in itertools.product(["H1", "Fmech", "Ftls", "iq-get-version", "message", "Fbind"], repeat=d):
                        jobs.append((est + (so,) + w, cfg))
                        if d == 1:
                            jobs.append((est + (so, "H1") + w, cfg))
    # timers that outlive a session: keep-alive pings, a resumable stream-management session, a lost connection, and a second connection on
    # which the server takes its time at every point before the link is encrypted
    session = ("H1", "Ftls+mech", "proceed", "TLS", "H1", "Fplain", "success", "H1", "Fbind", "bind-result", "sm-enabled", "roster-result")
    for cfg in ("keepalive", "keepalive+sasl2", "default"):
        for idle in ("sleep300", "sleep1300"):
            for end in (("cut",), ("sleep1200", "cut"), ("stream-error", "cut")):
                for slow in itertools.product(("sleep20", "sleep1300"), repeat=3):
                    if tier == "quick" and slow.count("sleep1300") > 1 and cfg != "keepalive":
                        continue
                    jobs.append((session + (idle,) + end + ("reconnect", slow[0], "H1", slow[1], "Ftls+mech", slow[2], "proceed", "TLS", "H1", "Fmech"), cfg))
    all_letters = list(LETTERS) + ["see-other+close"]
    for _ in range(3000 if tier == "quick" else 40000):
        n = r.choice([3, 5, 8, 10])
        w = [r.choice(["H1", "H1", "H0", "H09", "Hnoid", "H0noid"])] + [r.choice(all_letters) for _ in range(n)]
        if r.random() < 0.3:
            k = r.randrange(1, len(w) + 1)
            w[k:k] = ["Ftls+mech", "proceed", "TLS", "H1"]
        jobs.append((tuple(w), r.choice(list(CONFIGS))))
    W = vf.NPROC
    r.shuffle(jobs)
    with ProcessPoolExecutor(max_workers=W) as pool:
        res = list(pool.map(worker, [(w, jobs[w::W]) for w in range(W)]))
    stats = collections.Counter()
    for viol, st in res:
        for sig, what, w in viol:
            V.violation(sig, what, w)
        stats.update(st)
    cov = {"evaluations": stats["scripts"], "distinct_nontrivial": stats["scripts"] - 0,
           "rule": "server scripts = words over a %d-letter alphabet (stream headers with/without version and id, 8 feature sets with starttls optional/required/absent, SASL, SASL2+FAST, legacy auth, bind, sm; <proceed/>, TLS <failure/>, "
                   "legacy-auth field offers, IQ gets and results, <r/>, unsolicited <success/> and <challenge/>, message, presence, stream errors, see-other-host): exhaustive to length %d over a %d-letter core alphabet x %d client "
                   "configurations, random words to length 10 over the full alphabet x 7 configurations, plus positive-control scripts in which the fake server really completes STARTTLS with a committed test certificate; the server's "
                   "plaintext transcript is classified element by element and searched for the configured secrets in their encodings; distinct scripts counted" % (len(LETTERS), depth, len(SMALL), len(cfgs)),
           "observed": dict(stats), "samples": [{"server_script": ["H0", "legacy-fields"], "client_config": "legacy-on"}]}
    floors = {"scripts": stats["scripts"] > 1000, "tls_positive_control": stats["tls_sessions"] > 0 and stats["credentials_after_tls"] > 0, "gave_up": stats["gave_up_ok"] > 0, "starttls_requests": stats["starttls_requests"] > 0, "sessions_over_tls": stats["sessions_established_over_tls"] > 20, "second_connections": stats["second_connection_encrypted_again"] > 5}
    V.finish(cov, "exploration", ["the fake server sees exactly the bytes the client hands to its socket before the TLS handshake; TLS itself (OpenSSL via Qt) is trusted",
                                  "nonzas other than SASL elements sent in clear (e.g. <a/>) are recorded, not judged"], floors)
