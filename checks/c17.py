"""C17 — the public part of an encrypted message never contains its sensitive content (engine: msg)"""
import json, os, sys, collections
from concurrent.futures import ProcessPoolExecutor
from xml.dom import minidom
import vf

P, S, B = "public", "sensitive", "both"
# classification written from the property statement: routing data, hints, ids, explicit fallback -> public; all conversational payload -> sensitive
CLASS = {
    ("urn:xmpp:carbons:2", "private"): P,
    ("urn:xmpp:hints", "store"): P, ("urn:xmpp:hints", "no-permanent-store"): P, ("urn:xmpp:hints", "no-store"): P, ("urn:xmpp:hints", "no-copy"): P,
    ("urn:xmpp:sid:0", "stanza-id"): P, ("urn:xmpp:sid:0", "origin-id"): P,
    ("urn:xmpp:mix:core:1", "mix"): P, ("urn:xmpp:eme:0", "encryption"): P,
    ("http://jabber.org/protocol/address", "addresses"): P,     # XEP-0033 extended addressing is routing data
    ("urn:xmpp:fallback:0", "fallback"): B,
    ("", "body"): S, ("", "subject"): S, ("", "thread"): S,
    ("urn:xmpp:call-invites:0", "invite"): S, ("urn:xmpp:call-invites:0", "accept"): S, ("urn:xmpp:call-invites:0", "reject"): S,
    ("urn:xmpp:call-invites:0", "retract"): S, ("urn:xmpp:call-invites:0", "left"): S,
    ("urn:xmpp:jingle-message:0", "propose"): S, ("urn:xmpp:jingle-message:0", "ringing"): S, ("urn:xmpp:jingle-message:0", "proceed"): S,
    ("urn:xmpp:jingle-message:0", "reject"): S, ("urn:xmpp:jingle-message:0", "retract"): S, ("urn:xmpp:jingle-message:0", "finish"): S,
    ("urn:xmpp:delay", "delay"): S, ("jabber:x:delay", "x"): S,
    ("http://jabber.org/protocol/chatstates", "active"): S, ("http://jabber.org/protocol/chatstates", "inactive"): S, ("http://jabber.org/protocol/chatstates", "gone"): S,
    ("http://jabber.org/protocol/chatstates", "composing"): S, ("http://jabber.org/protocol/chatstates", "paused"): S,
    ("urn:xmpp:attention:0", "attention"): S, ("urn:xmpp:receipts", "request"): S, ("urn:xmpp:receipts", "received"): S,
    ("jabber:x:conference", "x"): S, ("http://jabber.org/protocol/xhtml-im", "html"): S,
    ("urn:xmpp:chat-markers:0", "markable"): S, ("urn:xmpp:chat-markers:0", "received"): S, ("urn:xmpp:chat-markers:0", "displayed"): S, ("urn:xmpp:chat-markers:0", "acknowledged"): S,
    ("jabber:x:oob", "x"): S, ("urn:xmpp:message-correct:0", "replace"): S, ("urn:xmpp:message-attaching:1", "attach-to"): S, ("urn:xmpp:spoiler:0", "spoiler"): S,
    ("urn:xmpp:bob", "data"): S, ("urn:xmpp:reply:0", "reply"): S, ("urn:xmpp:mix:misc:0", "invitation"): S, ("urn:xmpp:tm:1", "trust-message"): S,
    ("urn:xmpp:reactions:0", "reactions"): S, ("urn:xmpp:sfs:0", "file-sharing"): S, ("urn:xmpp:sfs:0", "sources"): S,
}
# at most one element of each group per message (the message object holds one value for the group)
GROUP = {}
for (ns, tag) in CLASS:
    if ns in ("urn:xmpp:call-invites:0", "urn:xmpp:jingle-message:0", "http://jabber.org/protocol/chatstates", "urn:xmpp:receipts"):
        GROUP[(ns, tag)] = ns
    elif ns == "urn:xmpp:chat-markers:0" and tag != "markable":
        GROUP[(ns, tag)] = "marker"
    elif (ns, tag) in (("urn:xmpp:delay", "delay"), ("jabber:x:delay", "x")):
        GROUP[(ns, tag)] = "delay"
    elif tag in ("stanza-id", "x", "file-sharing", "sources", "data", "fallback") and ns not in ("jabber:x:delay", "jabber:x:conference"):
        GROUP[(ns, tag)] = None   # repeatable
    else:
        GROUP[(ns, tag)] = (ns, tag)


def nsn(ns):
    return "" if ns in (None, "jabber:client") else ns


def canon(el):
    attrs = sorted("%s=%s" % (a.name, a.value) for a in el.attributes.values() if not a.name.startswith("xmlns")) if el.attributes else []
    kids, text = [], ""
    for c in el.childNodes:
        if c.nodeType == 1:
            kids.append(canon(c))
        elif c.nodeType in (3, 4):
            text += c.data
    if kids and not text.strip():
        text = ""
    return "{%s}%s[%s]%r(%s)" % (nsn(el.namespaceURI), el.localName, "|".join(attrs), text, ",".join(sorted(kids)))


def children(xml):
    d = minidom.parseString(xml.encode("utf8")).documentElement
    return [c for c in d.childNodes if c.nodeType == 1]


def key(el):
    return (nsn(el.namespaceURI), el.localName)


def tokens(el, out):
    """distinctive values of an element (attribute values and text of length >= 6)"""
    if el.attributes:
        for a in el.attributes.values():
            if not a.name.startswith("xmlns") and len(a.value) >= 6:
                out.add(a.value)
    for c in el.childNodes:
        if c.nodeType == 1:
            tokens(c, out)
        elif c.nodeType in (3, 4) and len(c.data.strip()) >= 6:
            out.add(c.data.strip())


def load_pool():
    pool = collections.OrderedDict()
    for l in open(os.path.join(vf.VERIF, "corpus", "seeds.jsonl")):
        o = json.loads(l)
        if o["root"] != "message":
            continue
        d = minidom.parseString(o["xml"].encode("utf8")).documentElement
        for c in d.childNodes:
            if c.nodeType != 1:
                continue
            k = key(c)
            if k in CLASS:
                x = c.toxml()
                if x not in pool.setdefault(k, []):
                    pool[k].append(x)
    # extended addresses of every XEP-0033 type (the fixtures only carry one 'to' example, if any)
    A = "http://jabber.org/protocol/address"
    ad = lambda t, j, extra="": "<address type='%s' jid='%s'%s/>" % (t, j, extra)
    pool.setdefault((A, "addresses"), [])
    pool[(A, "addresses")] += [
        "<addresses xmlns='%s'>%s</addresses>" % (A, ad("to", "hildjj@jabber.org/Work", " desc='Joe Hildebrand'") + ad("cc", "jer@jabber.org/Home", " desc='Jeremie Miller'")),
        "<addresses xmlns='%s'>%s</addresses>" % (A, ad("bcc", "blind-copy-recipient@example.org")),
        "<addresses xmlns='%s'>%s</addresses>" % (A, ad("to", "first-recipient@example.org") + ad("bcc", "hidden-recipient@example.com", " delivered='true'") + ad("replyto", "reply-here@example.org") + ad("noreply", "noreply-addr@example.org")),
        "<addresses xmlns='%s'>%s</addresses>" % (A, ad("replyroom", "room-for-replies@conference.example.org") + ad("ofrom", "original-sender@example.net")),
    ]
    return pool


def build(r, pool, kinds):
    used, parts = set(), []
    for k in kinds:
        g = GROUP[k]
        if g is not None:
            if g in used:
                continue
            used.add(g)
        x = r.choice(pool[k])
        x = x.replace(' xmlns="jabber:client"', "")
        parts.append((k, x))
        if GROUP[k] is None and r.random() < 0.3:
            parts.append((k, r.choice(pool[k]).replace(' xmlns="jabber:client"', "")))
    r.shuffle(parts)
    xml = "<message to='juliet@capulet.example/balcony' from='romeo@montague.example/orchard' id='MSGID-%d' type='%s'>%s</message>" % (
        r.randrange(10 ** 6), r.choice(["chat", "normal", "groupchat", "headline"]), "".join(p[1] for p in parts))
    return xml, parts


def judge(o, parts, fallback, viol, stats, xml):
    w = {"message": xml, "fallback_body": fallback, "public": o.get("public"), "sensitive": o.get("sensitive"), "all": o.get("all")}
    if o.get("parts_not_wellformed"):
        viol.append(("parts-not-wellformed", "public or sensitive part is not well-formed XML", w))
        return
    try:
        pub, sens, allc = children(o["public"]), children(o["sensitive"]), children(o["all"])
    except Exception as e:
        viol.append(("parts-not-wellformed", "cannot parse a part: %s" % e, w))
        return
    # --- O1: nothing sensitive in the public part
    sens_tokens = set()
    for k, x in parts:
        if CLASS[k] == S:
            tokens(minidom.parseString(x.encode("utf8")).documentElement, sens_tokens)
    pub_tokens = set()
    for k, x in parts:
        if CLASS[k] != S:
            tokens(minidom.parseString(x.encode("utf8")).documentElement, pub_tokens)
    for c in pub:
        k = key(c)
        if k == ("", "body"):
            txt = "".join(n.data for n in c.childNodes if n.nodeType in (3, 4))
            if fallback is None or txt != fallback:
                viol.append(("leak body", "public part carries a <body/> that is not the explicit fallback text", w))
            continue
        cls = CLASS.get(k)
        if cls in (P, B):
            continue
        if cls == S:
            viol.append(("leak %s|%s" % k, "sensitive element <%s xmlns='%s'/> is written into the public part" % (k[1], k[0]), w))
        # elements outside the table (unknown extensions, <error/>) are not judged
    for t in sens_tokens - pub_tokens:
        if fallback and t in fallback:
            continue
        if t in o["public"]:
            viol.append(("leak value", "a value of a sensitive element occurs in the public bytes: %r" % t[:40], w))
            break
    stats["leak_checked"] += 1
    # --- O2: partition
    def ms(els, drop_fallback_body=False):
        c = collections.Counter()
        for e in els:
            k = key(e)
            if CLASS.get(k) == B:
                continue
            if drop_fallback_body and k == ("", "body"):
                continue
            c[canon(e)] += 1
        return c
    together = ms(pub, True) + ms(sens)
    if together != ms(allc):
        missing = ms(allc) - together
        extra = together - ms(allc)
        kind = "lost" if missing else "duplicated"
        name = next(iter(missing or extra)).split("[")[0]
        viol.append(("partition %s %s" % (kind, name), "public + sensitive part do not contain exactly the elements of the unsplit message (%s %s)" % (kind, name), w))
    nfb = sum(1 for k, x in parts if CLASS[k] == B)
    if nfb and (sum(1 for e in pub if CLASS.get(key(e)) == B) != nfb or sum(1 for e in sens if CLASS.get(key(e)) == B) != nfb):
        viol.append(("fallback-marker not-in-both", "fallback markers must accompany both parts", w))
    stats["partition_checked"] += 1
    # --- O3: recovery
    w["recovered_all"] = o.get("rec_all")
    def canon_wo_fallback(xml):
        # explicit fallback markers accompany both parts by definition and are left aside (statement)
        d = minidom.parseString(xml.encode("utf8")).documentElement
        for c in list(d.childNodes):
            if c.nodeType == 1 and CLASS.get(key(c)) == B:
                d.removeChild(c)
        return canon(d)
    try:
        ra, oa = canon_wo_fallback(o["rec_all"]), canon_wo_fallback(o["all"])
        rp, op = canon_wo_fallback(o["rec_public"]), canon_wo_fallback(o["public"])
    except Exception as e:
        viol.append(("recovered-not-wellformed", str(e), w))
        return
    if o["rec_unknown"] != o["orig_unknown"]:
        names = sorted(set(o.get("rec_unknown_names", [])))
        viol.append(("recovery known-extension-becomes-unknown %s" % ",".join(sorted(set(x.split("|")[1] for x in names)))[:120], "after parsing public then sensitive part a known extension is left in the unknown-extension list", w))
    elif ra != oa or rp != op:
        viol.append(("recovery field-values-differ", "parsing the public and then the sensitive part does not recover the message", w))
    elif (o.get("rec_fallback") or "") != (fallback or ""):
        viol.append(("recovery fallback-body", "explicit fallback body not recovered", w))
    stats["recovery_checked"] += 1


def worker(args):
    wid, count, mode = args
    binary = vf.build_harness("msg")
    r = vf.rng("c17", wid)
    pool = load_pool()
    kinds = list(pool.keys())
    cases = []
    if mode == "structured" and wid == 0:
        for k in kinds:
            cases.append([k])
        for i, a in enumerate(kinds):
            for b in kinds[:i]:
                cases.append([a, b])
    while len(cases) < count:
        n = r.choice([1, 2, 3, 5, 8, 12, 20, len(kinds)])
        cases.append(r.sample(kinds, min(n, len(kinds))))
    viol = []
    stats = collections.Counter()
    seen_kinds = set()
    last = None
    CH = 4000      # (bounded memory: requests, answers and parsed documents of one chunk at a time)
    for c0 in range(0, len(cases), CH):
        reqs, meta = [], {}
        for n, ks in enumerate(cases[c0:c0 + CH], c0):
            xml, parts = build(r, pool, ks)
            fb = r.choice([None, None, "FALLBACK-TEXT-%d I sent you an encrypted message" % n])
            q = {"n": n, "xml": xml}
            if fb is not None:
                q["fallbackBody"] = fb
            reqs.append(q)
            meta[n] = (xml, parts, fb)
        resp, crashes = vf.drive(binary, reqs)
        for rq, info in crashes:
            viol.append(("crash " + vf.crash_sig(info), "sanitizer report / abnormal exit while splitting a message", {"request": rq, "stderr": info["stderr"][-3000:]}))
        for n, (xml, parts, fb) in meta.items():
            o = resp.get(n)
            if not o or o.get("bad_input"):
                continue
            stats["messages"] += 1
            for k, _ in parts:
                seen_kinds.add(k)
            if len(viol) < 200:
                judge(o, parts, fb, viol, stats, xml)
        last = reqs[-1]["xml"] if reqs else last
    return viol, dict(stats), sorted("%s|%s" % k for k in seen_kinds), last


def wire_worker(args):
    """the client's encrypted send path end to end: messages handed to QXmppClient::sendSensitive() of a connected client whose encryption
    extension (a stand-in that, like the OMEMO manager, returns the message with its sensitive fields set and marks it with XEP-0380 only
    when it has a body - or always) has 'encrypted' it; judged: what the server receives"""
    import wire
    wid, count = args
    binary = vf.build_harness("wire")
    r = vf.rng("c17-wire", wid)
    pool = load_pool()
    kinds = list(pool.keys())
    cases, metas = [], []
    per = 40
    for s0 in range(0, count, per):
        mgr = r.choice(["fakee2ee", "fakee2ee-mark"])
        steps = [wire.client(managers=[mgr])] + wire.login_sasl(sm=True) + [dict(op="wait_signal", name="connected")]
        sent = []
        for i in range(min(per, count - s0)):
            ks = r.sample(kinds, r.choice([1, 1, 2, 3, 5, 8]))
            if r.random() < 0.5:
                ks = [k for k in ks if k != ("", "body")]      # messages without a body: reactions, receipts, markers, chat states ...
            xml, parts = build(r, pool, ks)
            if not parts:
                continue
            steps.append(dict(op="sendSensitive", xml=xml))
            sent.append((xml, parts))
        steps += [dict(op="fence", sm=True), dict(op="settle", quiet=15), dict(op="fence", sm=True)]
        cases.append(dict(steps=steps, timeout=8000))
        metas.append((mgr, sent))
    outs, crashes = wire.run_cases(binary, cases)
    viol, stats, inconc = [], collections.Counter(), []
    for rq, info in crashes:
        viol.append(("crash " + vf.crash_sig(info), "sanitizer report / abnormal exit in the encrypted send path", {"stderr": info["stderr"][-3000:]}))
    for out, (mgr, sent) in zip(outs, metas):
        if not out:
            continue
        if out["stalled"] >= 0:
            inconc.append("session stalled at step %s" % out["stalled"])
            continue
        on_wire = {}
        for e in wire.srv_rx(out["journal"]):
            if e["tag"] == "message" and e.get("id", "").startswith("MSGID-"):
                on_wire[e["id"]] = e["xml"]
        for xml, parts in sent:
            mid = minidom.parseString(xml.encode("utf8")).documentElement.getAttribute("id")
            got = on_wire.get(mid)
            stats["wire_messages"] += 1
            if got is None:
                viol.append(("wire encrypted-message-not-sent", "a message handed to sendSensitive() never reached the server", {"message": xml, "extension": mgr}))
                continue
            sens_tokens = set()
            for k, x in parts:
                if CLASS[k] == S:
                    tokens(minidom.parseString(x.encode("utf8")).documentElement, sens_tokens)
            pub_tokens = set()
            for k, x in parts:
                if CLASS[k] != S:
                    tokens(minidom.parseString(x.encode("utf8")).documentElement, pub_tokens)
            w = {"message": xml, "on_the_wire": got, "extension": mgr + (" (marks every message with XEP-0380)" if mgr.endswith("mark") else " (marks only messages with a body, like the OMEMO manager)")}
            leaked_kind = [key(c) for c in children(got) if CLASS.get(key(c)) == S]
            # (the XEP-0380 marker and the stand-in's "ciphertext" element are put there by the extension itself)
            own = "".join(c.toxml() for c in children(got) if key(c) in (("urn:xmpp:eme:0", "encryption"), ("urn:example:fake-e2ee", "encrypted")))
            rest = "".join(c.toxml() for c in children(got) if key(c) not in (("urn:xmpp:eme:0", "encryption"), ("urn:example:fake-e2ee", "encrypted")))
            leaked_tok = [t for t in sens_tokens - pub_tokens if t in rest]
            if leaked_kind:
                viol.append(("wire leak %s" % (leaked_kind[0][1]), "the stanza the client put on the wire for an encrypted message contains the sensitive element <%s xmlns='%s'/>" % (leaked_kind[0][1], leaked_kind[0][0]), w))
            elif leaked_tok:
                viol.append(("wire leak value", "the stanza on the wire contains a value of a sensitive element", dict(w, value=leaked_tok[0][:100])))
            else:
                stats["wire_public_only"] += 1
                if not any(k == ("", "body") for k, _ in parts):
                    stats["wire_bodyless_public_only"] += 1
    return viol, dict(stats), inconc


def main(tier, replay=None):
    V = vf.Verdict("C17", tier)
    vf.build_harness("msg")
    total = 20000 if tier == "quick" else 1000000
    W = vf.NPROC
    with ProcessPoolExecutor(max_workers=W) as ex:
        res = list(ex.map(worker, [(w, total // W, "structured") for w in range(W)]))
    stats, kinds, sample = collections.Counter(), set(), None
    for viol, st, ks, smp in res:
        for sig, what, w in viol:
            V.violation(sig, what, w)
        stats.update(st)
        kinds |= set(ks)
        sample = sample or smp
    with ProcessPoolExecutor(max_workers=W) as ex:
        res2 = list(ex.map(wire_worker, [(w, (1600 if tier == "quick" else 80000) // W) for w in range(W)]))
    for viol, st, inconc in res2:
        for sig, what, w in viol:
            V.violation(sig, what, w)
        for i in inconc:
            V.inconc(i)
        stats.update(st)
    cov = {"evaluations": stats["messages"], "distinct_nontrivial": stats["messages"],
           "rule": "messages assembled from the %d known extension element kinds found in the repository's message fixtures (each classified public / sensitive / both from the property statement): every single kind, every pair, "
                   "and random subsets up to all kinds, parsed in combined mode, optionally given an explicit fallback body, serialized the way the client's encrypted send path (toXml(ScePublic)) and the OMEMO manager "
                   "(serializeExtensions(SceSensitive)) do, and recovered with parse(ScePublic)+parseExtensions(SceSensitive); messages are distinct by construction (random ids)" % len(CLASS),
           "observed": dict(stats), "extension_kinds_exercised": len(kinds), "samples": [{"message": sample}]}
    floors = {"messages": stats["messages"] > 100, "all_kinds_exercised": len(kinds) == len(CLASS), "leak_checked": stats["leak_checked"] > 0, "recovery_checked": stats["recovery_checked"] > 0, "wire_public_only": stats["wire_public_only"] > 100, "wire_bodyless": stats["wire_bodyless_public_only"] > 20}
    V.finish(cov, "exploration", ["classification of extension kinds is our reading of the statement", "unknown (application-defined) extensions and <error/> are not judged",
                                  "objects are built by parsing fixtures in combined mode, not through setters"], floors)
