"""C09 — stream management: a stanza is confirmed only when acked, else resent, in order (engine: wire)"""
import collections, itertools, json, os, re, sys
from concurrent.futures import ProcessPoolExecutor
import vf, wire

NS_SM = wire.NS_SM


class Sess:
    """server-side bookkeeping for one stream-management session as seen by the script (the reference)"""
    def __init__(self):
        self.sent = []          # markers in the order the client handed them to the library (this sm session numbering restarts on new session)


def build(r, word):
    steps = [wire.client()] + wire.login_sasl(sm=True, resumable=True, roster=True)
    for s in steps:
        if s.get("smOn"):
            s["manualAck"] = True
    steps += [dict(op="wait_signal", name="connected"), dict(op="fence", sm=False)]
    plan = []          # list of (segment, op tuple, info)
    seg = [0]
    markers = []       # all markers in send order
    mk = [0]
    connected, sm_on, resumable = [True], [True], [True]

    def mark():
        seg[0] += 1
        steps.append(dict(op="mark", name="seg-%d" % seg[0]))

    def quiesce():
        # logical quiescence: the answer to <r/> (or, without stream management, to a ping IQ) comes after everything the client did for the
        # previous step. With stream management the fence must not make the client send a stanza: the idle state "everything acknowledged"
        # has to be reachable (a ping reply would always leave one unacknowledged stanza behind).
        if connected[0]:
            steps.append(dict(op="fence", sm=bool(sm_on[0])))
        else:
            steps.append(dict(op="settle", quiet=10))

    mark()
    for op in word:
        name = op[0]
        if name in ("send", "sendp", "sendiq") and connected[0]:
            mk[0] += 1
            m = "mk%d" % mk[0]
            markers.append(m)
            if name == "send":
                steps.append(dict(op="sendMessage", marker=m))
            elif name == "sendp":
                steps.append(dict(op="sendPresence", marker=m))
            plan.append((seg[0], ("send", m), None))
        elif name == "ack" and connected[0] and sm_on[0]:
            # h relative to what the server has counted: stale / exact / beyond / fixed offsets
            steps.append(dict(op="ackrel", rel=op[1]))
            plan.append((seg[0], ("ack", op[1]), None))
        elif name == "r" and connected[0] and sm_on[0]:
            steps.append(wire.S("<r xmlns='%s'/>" % NS_SM))
            plan.append((seg[0], ("r",), None))
        elif name == "deliver" and connected[0]:
            k = op[1]
            x = {"message": "<message from='bob@example.org/x' id='in-%d' type='chat'><body>hi</body></message>" % seg[0],
                 "presence": "<presence from='bob@example.org/x'/>", "iq": "<iq type='get' id='in-iq-%d' from='example.org'><ping xmlns='urn:xmpp:ping'/></iq>" % seg[0],
                 "nonza": "<r xmlns='%s'/>" % NS_SM, "two": "<message from='bob@example.org/x' type='chat'><body>1</body></message><presence from='carol@example.com/y'/>"}[k]
            steps.append(wire.S(x))
            plan.append((seg[0], ("deliver", k), None))
        elif name == "cut" and connected[0]:
            steps.append(dict(op="cut"))
            steps.append(dict(op="wait_signal", name="disconnected"))
            connected[0] = False
            plan.append((seg[0], ("cut",), None))
        elif name == "reconnect" and not connected[0]:
            mode = op[1]   # ('resume', hrel) | 'new-sm' | 'new-nosm'
            if sm_on[0] and isinstance(mode, tuple):
                st = wire.relogin(resume="accept", roster=False, h="$HREL:%s" % mode[1])
                steps.extend(st)
                steps.append(dict(op="wait_signal", name="connected", optional=True, timeout=800))
                plan.append((seg[0], ("resumed", mode[1]), None))
            else:
                if isinstance(mode, tuple):
                    mode = "new-sm"
                if sm_on[0]:
                    st = wire.relogin(resume="fail" if mode == "new-sm" else "none", roster=True, resumable=True)
                else:
                    st = wire.relogin(resume="fail" if mode == "new-sm" else "none", roster=True, resumable=True)
                    st = [s for s in st if not (s.get("op") == "await" and s.get("tag") == "resume") and "failed xmlns" not in s.get("xml", "")]
                    for s in st:
                        if s.get("op") == "await" and s.get("child") == "bind":
                            s["react"] = {"resume": "<failed xmlns='urn:xmpp:sm:3'><item-not-found xmlns='urn:ietf:params:xml:ns:xmpp-stanzas'/></failed>"}
                for s in st:
                    if s.get("op") == "await" and s.get("tag") in ("iq", "enable"):
                        s["optional"], s["timeout"] = True, 500
                steps.extend(st)
                steps.append(dict(op="wait_signal", name="connected", optional=True, timeout=800))
                sm_on[0] = mode == "new-sm"
                plan.append((seg[0], ("new-session", sm_on[0]), None))
            for s in steps:
                if s.get("smOn"):
                    s["manualAck"] = True
            connected[0] = True
        else:
            continue
        quiesce()
        mark()
    # end: acknowledge everything that is left if possible, then close
    if connected[0] and sm_on[0]:
        steps.append(dict(op="ackrel", rel="exact"))
        plan.append((seg[0], ("ack", "exact"), None))
        quiesce()
        mark()
    if connected[0]:
        steps.append(dict(op="disconnect"))
        steps.append(dict(op="wait_signal", name="disconnected", optional=True, timeout=800))
    steps.append(dict(op="destroy"))
    steps.append(dict(op="settle", quiet=5))
    mark()
    return steps, plan, markers


STANZAS = ("message", "presence", "iq")


def judge2(journal, plan, markers, viol, stats):
    """replays the journal against a server-side reference of XEP-0198 (positions = order of first arrival per sm session)"""
    hist = [list(map(str, o)) for (_, o, _) in plan]
    w0 = {"history": hist}
    order = {m: i for i, m in enumerate(markers)}
    done = {}                      # marker -> kind
    covered = set()                # markers covered by an <a h/> / <resumed h/> the server has delivered
    sess_of_conn = {}              # conn -> sm session id (None = no stream management on that connection)
    arrivals = collections.defaultdict(list)   # session -> unique stanza xml in order of first arrival (position = index + 1)
    marker_xml = {}                # marker -> xml of its stanza
    marker_sess = {}               # marker -> sm session under which it was first sent (None: sent without sm)
    delivered = collections.defaultdict(int)    # session -> stanzas the server has delivered
    seen_conn = collections.defaultdict(list)   # conn -> markers received, in order
    max_h = {}
    r_queue = collections.defaultdict(list)     # conn -> delivered count at each <r/> the server sent, in order
    checks = {}                    # conn -> expected retransmissions
    positions = collections.defaultdict(set)    # (session, marker) -> positions at which the server counted it
    max_pos = {}                   # session -> highest position counted so far
    hostile = False                # an ack beyond what was sent / below what was acked: client and server numbering no longer agree by definition
    for e in journal:
        if e["ev"] == "send_done":
            m = e["marker"]
            if m in done or e["count"] != 1:
                viol.append(("report-fired-twice", "a send task's continuation ran more than once", dict(w0, marker=m)))
            done[m] = e["kind"]
            stats["kind:" + e["kind"]] += 1
            if e["kind"] == "acknowledged":
                stats["acknowledged"] += 1
                if m not in covered and hostile:
                    stats["acknowledged_not_judged_after_inconsistent_ack"] += 1
                elif m not in covered:
                    viol.append(("acknowledged-without-cover", "a stanza was reported 'acknowledged' although no <a h/> or <resumed h/> delivered so far covers it",
                                 dict(w0, marker=m, covered=sorted(covered, key=lambda x: order.get(x, 0)))))
        elif e["ev"] == "srv_rx" and e["kind"] == "element":
            c = e["conn"]
            sid = sess_of_conn.get(c)
            if e["tag"] in STANZAS and sid is not None:
                # position of a stanza = the server's own count when it arrived (a retransmission after <resumed h/> is counted from h on again);
                # identical stanzas (two presences with the same content) are different positions
                arrivals[sid].append(e["xml"])
                max_pos[sid] = max(max_pos.get(sid, 0), int(e.get("sm_inbound") or 0))
                if e["tag"] in ("message", "presence") and e.get("id", "").startswith("mk"):
                    positions[(sid, e["id"])].add(int(e.get("sm_inbound") or 0))
            if e["tag"] in ("message", "presence") and e.get("id", "").startswith("mk"):
                m = e["id"]
                seen_conn[c].append(m)
                if m not in marker_xml:
                    marker_xml[m] = e["xml"]
                    marker_sess[m] = sid
            if e["ns"] == wire.NS_SM and e["tag"] == "a":
                # the n-th <a/> answers the n-th <r/> the server sent: what counts is what had been delivered when that <r/> left
                exp = r_queue[c].pop(0) if r_queue[c] else (delivered[sid] if sid is not None else 0)
                stats["client_h_reports"] += 1
                if int(e["h"] or -1) != exp:
                    viol.append(("inbound-h-wrong kind=a diff=%+d" % max(-2, min(2, int(e["h"] or -1) - exp)), "the client reported h=%s but the server has delivered %d message/presence/iq stanzas on this session" % (e["h"], exp), dict(w0, h=e["h"], delivered=exp)))
                else:
                    stats["client_h_ok"] += 1
                    stats["client_h_nonzero_ok"] += exp > 0
            if e["ns"] == wire.NS_SM and e["tag"] == "resume":
                psid = e.get("previd")
                exp = delivered.get(psid, 0)
                stats["client_h_reports"] += 1
                if psid not in delivered and psid not in arrivals:
                    stats["resume_of_unknown_session"] += 1
                elif int(e["h"] or -1) != exp:
                    viol.append(("inbound-h-wrong kind=resume diff=%+d" % max(-2, min(2, int(e["h"] or -1) - exp)), "the client asked to resume with h=%s but the server had delivered %d stanzas on that session" % (e["h"], exp), dict(w0, h=e["h"], delivered=exp)))
                else:
                    stats["client_h_ok"] += 1
                    stats["client_h_nonzero_ok"] += exp > 0
        elif e["ev"] == "srv_tx":
            c = e["conn"]
            x = e["xml"]
            sid = e.get("sm_session") or None
            mm = re.match(r"<(a|resumed|enabled) xmlns='urn:xmpp:sm:3'(?: h='(\d+)')?", x)
            if mm and mm.group(1) in ("enabled", "resumed"):
                sess_of_conn[c] = sid
                if mm.group(1) == "enabled":
                    arrivals[sid] = []
                    stats["sm_sessions"] += 1
                    if c > 0:
                        stats["renumbered_sessions"] += 1
            if sid and "sm_outbound" in e:
                delivered[sid] = e["sm_outbound"]
            if x.startswith("<r xmlns='urn:xmpp:sm:3'"):
                r_queue[c].append(delivered.get(sid, 0))
            if mm and mm.group(1) in ("a", "resumed"):
                h = int(mm.group(2))
                if h > max_pos.get(sid, 0) or h < max_h.get(sid, 0):
                    hostile = True
                max_h[sid] = max(max_h.get(sid, 0), h)
                for m in marker_xml:
                    if marker_sess.get(m) is not None and any(p_ <= h for p_ in positions.get((sid, m), ())):
                        covered.add(m)
            if mm and mm.group(1) in ("enabled", "resumed") and c > 0:
                # what must come again on this connection: sent under stream management, not covered, report still open
                # (a report that has already ended in an *error* does not release the obligation: under stream management nothing but the
                #  destruction of the client or a change of account ends a report before the stanza is covered, and neither happens here)
                exp = [m for m in markers if m in marker_xml and marker_sess.get(m) is not None and m not in covered and done.get(m) in (None, "error")]
                if not hostile:
                    checks[c] = {"kind": "resumed" if mm.group(1) == "resumed" else "new-session", "expected": exp, "covered_then": set(covered)}
                else:
                    stats["resend_not_judged_after_inconsistent_ack"] += 1
                if mm.group(1) == "resumed":
                    stats["resumed_sessions"] += 1
                else:
                    # positions restart: the retransmissions are the first arrivals of the new session
                    pass
    for c, ck in checks.items():
        got, exp = seen_conn.get(c, []), ck["expected"]
        w = dict(w0, connection=c, kind=ck["kind"], expected_retransmissions=exp, received_markers=got)
        again = [m for m in got if m in ck["covered_then"]]
        if again:
            viol.append(("covered-stanza-resent %s" % ck["kind"], "a stanza already covered by the server's handled-count was transmitted again", dict(w, resent=again)))
        if got[:len(exp)] != exp:
            missing = [m for m in exp if m not in got]
            if missing:
                viol.append(("uncovered-stanza-not-resent %s" % ck["kind"], "a stanza not covered by the handled-count was not transmitted again on the resumed/new session", dict(w, missing=missing)))
            else:
                viol.append(("resend-order %s" % ck["kind"], "uncovered stanzas were not retransmitted in their original order before newer traffic", w))
        elif exp:
            stats["resent_ok"] += len(exp)
    return done


def gen_word(r, n):
    w = []
    for _ in range(n):
        x = r.random()
        if x < 0.35:
            w.append((r.choice(["send", "send", "sendp"]),))
        elif x < 0.55:
            w.append(("ack", r.choice(["exact", "exact", "stale", "beyond", "minus1", "zero"])))
        elif x < 0.62:
            w.append(("r",))
        elif x < 0.78:
            w.append(("deliver", r.choice(["message", "presence", "iq", "nonza", "two"])))
        elif x < 0.88:
            w.append(("cut",))
        else:
            w.append(("reconnect", r.choice([("resume", "all"), ("resume", "some"), ("resume", "none"), ("resume", "stale"), "new-sm", "new-nosm"])))
    return w


def alphabet():
    return [("send",), ("ack", "exact"), ("ack", "minus1"), ("ack", "beyond"), ("r",), ("deliver", "message"), ("deliver", "nonza"), ("cut",),
            ("reconnect", ("resume", "all")), ("reconnect", ("resume", "some")), ("reconnect", ("resume", "none")), ("reconnect", "new-sm"), ("reconnect", "new-nosm")]


def worker(args):
    wid, nrandom, words = args
    binary = vf.build_harness("wire")
    r = vf.rng("c09", wid)
    cases, metas = [], []
    for wd in list(words) + [gen_word(r, r.choice([5, 10, 20, 40])) for _ in range(nrandom)]:
        steps, plan, markers = build(r, wd)
        cases.append(dict(steps=steps, timeout=4000))
        metas.append((plan, markers))
    outs, crashes = wire.run_cases(binary, cases)
    viol, stats, inconc = [], collections.Counter(), []
    for rq, info in crashes:
        viol.append(("crash " + vf.crash_sig(info), "sanitizer report / abnormal exit of the client in stream management", {"stderr": info["stderr"][-4000:]}))
    for idx_, (out, (plan, markers)) in enumerate(zip(outs, metas)):
        if not out:
            continue
        stats["histories"] += 1
        if out["stalled"] >= 0:
            fails = [e for e in out["journal"] if e["ev"] == "await_failed"]
            inconc.append("history stalled at step %s: %s" % (out["stalled"], fails[:1]))
            continue
        def jf(j_, vv, ss, plan=plan, markers=markers):
            done = judge2(j_, plan, markers, vv, ss)
            for m in markers:
                ss["stanzas"] += 1
                if m not in done:
                    vv.append(("report-never-fired", "a send task never reported anything although the client was destroyed", {"history": [list(map(str, o)) for (_, o, _) in plan], "marker": m}))
        v_, st_, _ = wire.judged(binary, cases[idx_], out, jf)
        viol += v_
        stats.update(st_)
    return viol, dict(stats), inconc


def main(tier, replay=None):
    V = vf.Verdict("C09", tier)
    vf.build_harness("wire")
    W = vf.NPROC
    A = alphabet()
    depth = 3 if tier == "quick" else 4
    words = []
    for d in range(1, depth + 1):
        for w in itertools.product(A, repeat=d):
            words.append([("send",), ("send",)] + list(w))
    # session chains: what the first session leaves behind (all acknowledged / something in flight / stanzas received) must not leak into the
    # counters of the next one, whichever way the next one starts
    RECON = [a for a in A if a[0] == "reconnect"]
    PRE = [[], [("ack", "exact")], [("deliver", "message"), ("ack", "exact")], [("ack", "minus1")], [("deliver", "message"), ("deliver", "message")]]
    POST = [[("r",)], [("send",), ("ack", "exact")], [("deliver", "message"), ("r",)], [("send",), ("r",), ("ack", "exact")]]
    chains = 0
    for k in (0, 1, 2):
        for pre in PRE:
            for x in RECON:
                for post in POST:
                    words.append([("send",)] * k + pre + [("cut",), x] + post)
                    chains += 1
    for x in RECON:
        for y in RECON:
            for pre in PRE[:3]:
                for post in POST[:2]:
                    words.append([("send",), ("send",)] + pre + [("cut",), x, ("send",), ("ack", "exact"), ("cut",), y] + post)
                    chains += 1
    nrandom = (20000 if tier == "quick" else 300000) // W
    with ProcessPoolExecutor(max_workers=W) as pool:
        res = list(pool.map(worker, [(w, nrandom, words[w::W]) for w in range(W)]))
    stats = collections.Counter()
    for viol, st, inconc in res:
        for sig, what, w in viol:
            V.violation(sig, what, w)
        for i in inconc:
            V.inconc(i)
        stats.update(st)
    cov = {"evaluations": stats["stanzas"] + stats["client_h_reports"], "distinct_nontrivial": stats["acknowledged"] + stats["resent_ok"] + stats["client_h_ok"],
           "rule": "histories over {send message/presence (unique markers), server <a h/> with h exact/minus one/stale/zero/beyond, server <r/>, deliver message/presence/iq/nonza/two stanzas, connection loss, resume accepted with h all/some/none/stale, "
                   "resume refused then new session with or without stream management}: two initial sends followed by every word of length <= %d over a %d-letter alphabet, 390 two- and three-session chains ({nothing, all acked, received+acked, one unacked} x cut x 5 ways to start the next session x 4 continuations), plus random words up to length 40; the fake server keeps its own "
                   "XEP-0198 counters (reference) and decides which acks it delivers; oracle: 'acknowledged' only for covered positions, no report twice, retransmissions on a resumed/new session are exactly the uncovered stanzas in original "
                   "order, covered ones never come again, every <a h/> and <resume h/> from the client equals the number of stanzas delivered" % (depth, len(A)),
           "observed": dict(stats), "exhaustive_words": len(words), "samples": [{"word": [list(map(str, x)) for x in words[min(len(words) - 1, 500)]]}]}
    floors = {"acknowledged": stats["acknowledged"] > 0, "resent": stats["resent_ok"] > 0, "renumbered": stats["renumbered_sessions"] > 0, "nonzero_inbound_h": stats["client_h_nonzero_ok"] > 0, "resumed": stats["resumed_sessions"] > 0}
    V.finish(cov, "exploration", ["sending while disconnected is not modelled (the client reports a socket error at once)", "ordering relative to the client's own roster request / initial presence on a new session is not judged"], floors)
