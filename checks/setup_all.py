"""setup: build the sanitizer flavour of the library and every harness (offline, from files on disk)"""
import glob, os, sys
import vf

def main():
    vf.build_lib("asan")
    parts = {src[:-4] for src, _ in vf.PARTS.values()}   # part sources are compiled by the harness they belong to
    names = sorted(n for n in (os.path.basename(p)[:-4] for p in glob.glob(os.path.join(vf.VERIF, "harness", "*.cpp"))) if n not in parts)
    errs = []
    def b(n):
        try:
            vf.build_harness(n)
        except vf.HarnessFailure as e:
            errs.append(str(e))
    vf.pmap(b, names, jobs=8)
    # the uninstrumented flavour for the valgrind memcheck sample (C02)
    try:
        vf.build_lib("plain")
        for n in ("codec", "fields"):
            vf.build_harness(n, flavour="plain")
    except vf.HarnessFailure as e:
        errs.append(str(e))
    if errs:
        print("\n".join(errs)); sys.exit(2)
    print("setup ok: %d harnesses" % len(names))
