"""C11 — carbon copies are trusted only when they come from the user's own account (engine: wire)"""
import collections, json, os, sys
from concurrent.futures import ProcessPoolExecutor
from xml.dom import minidom
import vf, wire
import c17

OWN = wire.BARE
SENDERS = {   # class -> (outer from or None for absent, verdict class)
    "own-bare": (OWN, "accept"),
    "own-full-this": (wire.JID, "reject"),
    "own-full-other": (OWN + "/phone", "reject"),
    "case-local": ("Alice@example.org", "dontcare"),
    "case-domain": ("alice@EXAMPLE.org", "dontcare"),
    "lookalike-suffix-domain": ("alice@evil-example.org", "reject"),
    "lookalike-subdomain": ("alice@im.example.org", "reject"),
    "lookalike-appended": ("alice@example.org.evil.example", "reject"),
    "prefix-local": ("xalice@example.org", "reject"),
    "suffix-domain": ("alice@example.orgx", "reject"),
    "resource-trick-domain": ("alice@capulet.example/example.org", "reject"),
    "resource-trick-jid": ("alice@capulet.example/x@example.org", "reject"),
    "resource-trick-own": ("mallory@evil.example/alice@example.org", "reject"),
    "contact": ("bob@example.org/phone", "reject"),
    "contact-bare": ("bob@example.org", "reject"),
    "server-domain": ("example.org", "reject"),
    "empty": ("", "dontcare"),
    "absent": (None, "dontcare"),
    "whitespace": (" alice@example.org", "reject"),
}
NS_C, NS_F = "urn:xmpp:carbons:2", "urn:xmpp:forward:0"
PREV_ACCOUNT = "romeo@montague.example"
SENDERS["previous-account"] = (PREV_ACCOUNT, "reject")   # the bare address of an account this client object was logged into before


def canon(el):
    return c17.canon(el)


def inner_message(r, pool, n, direction):
    kinds = [k for k in pool if c17.CLASS[k] != c17.P or k[1] in ("store", "origin-id")]
    ks = r.sample(kinds, r.choice([0, 1, 2, 4]))
    _, parts = c17.build(r, pool, [k for k in ks if k != ("", "body")])
    frm, to = ("%s/laptop" % OWN, "bob@example.org/phone") if direction == "sent" else ("bob@example.org/phone", "%s/laptop" % OWN)
    body = "inner-body-%d" % n
    return ("<message xmlns='jabber:client' from='%s' to='%s' id='inner-%d' type='chat'><body>%s</body>%s</message>" % (frm, to, n, body, "".join(p[1] for p in parts))), frm, to, body


def wrap(r, n, outer_from, direction, inner, shape):
    fa = "" if outer_from is None else " from='%s'" % outer_from
    car, fwd = NS_C, NS_F
    pre = post = ""
    core_inner = inner
    if shape == "extra-before":
        pre = "<body>outer-body-%d</body>" % n
    elif shape == "extra-after":
        post = "<body>outer-body-%d</body><store xmlns='urn:xmpp:hints'/>" % n
    elif shape == "wrong-carbons-ns":
        car = "urn:xmpp:carbons:1"
    elif shape == "wrong-forward-ns":
        fwd = "urn:xmpp:forward:1"
    elif shape == "forwarded-without-message":
        core_inner = "<delay xmlns='urn:xmpp:delay' stamp='2010-07-10T23:08:25Z'/>"
    elif shape == "nested":
        # the inner message is itself a carbon wrapper (from the own account) around a second-level message
        lvl2 = "<message xmlns='jabber:client' from='carol@example.com/x' to='%s' id='inner2-%d' type='chat'><body>inner2-body-%d</body></message>" % (OWN, n, n)
        # (either direction, directly under the inner message or buried in an application extension of it)
        nd = r.choice(["sent", "received"])
        nested = "<%s xmlns='%s'><forwarded xmlns='%s'>%s</forwarded></%s>" % (nd, NS_C, NS_F, lvl2, nd)
        if r.random() < 0.4:
            nested = "<container xmlns='urn:example:container'><deeper>%s</deeper></container>" % nested
        core_inner = inner.replace("</message>", nested + "</message>")
    elif shape == "buried-wrapper":
        # no carbon at all: a wrapper buried in the payload of another kind of stanza (a MAM result, an application extension) that the
        # own account or anyone else sends; a contact can put such XML into any message it writes
        nd = r.choice(["sent", "received"])
        w_ = "<%s xmlns='%s'><forwarded xmlns='%s'>%s</forwarded></%s>" % (nd, NS_C, NS_F, inner, nd)
        host = r.choice(["mam", "ext", "forwarded"])
        if host == "mam":
            payload = "<result xmlns='urn:xmpp:mam:2' queryid='q1' id='arch-%d'><forwarded xmlns='%s'><message xmlns='jabber:client' from='bob@example.org/phone' to='%s' type='chat'><body>archived-%d</body>%s</message></forwarded></result>" % (n, NS_F, OWN, n, w_)
        elif host == "ext":
            payload = "<body>outer-body-%d</body><container xmlns='urn:example:container'>%s</container>" % (n, w_)
        else:
            payload = "<forwarded xmlns='%s'><message xmlns='jabber:client' from='bob@example.org/phone' to='%s' type='chat'><body>fwd-%d</body>%s</message></forwarded>" % (NS_F, OWN, n, w_)
        return "<message%s to='%s' id='outer-%d' type='chat'>%s</message>" % (fa, wire.JID, n, payload), inner
    elif shape in ("delay-on-wrapper", "delay-on-outer", "delay-on-both"):
        # XEP-0297 lets <forwarded/> carry a <delay/> of its own (when the copy was made), and a server may stamp the outer stanza when it
        # delivers it late: neither belongs to the inner message
        dl = "<delay xmlns='urn:xmpp:delay' stamp='2021-02-03T04:05:%02dZ' from='example.org'/>" % (n % 60)
        if shape != "delay-on-wrapper":
            post = dl.replace("2021", "2022")
        if shape != "delay-on-outer":
            x = "<message%s to='%s' id='outer-%d' type='chat'>%s<%s xmlns='%s'><forwarded xmlns='%s'>%s%s</forwarded></%s>%s</message>" % (
                fa, wire.JID, n, pre, direction, car, fwd, dl, core_inner, direction, post)
            return x, core_inner
    elif shape == "two-wrappers":
        post = "<%s xmlns='%s'><forwarded xmlns='%s'>%s</forwarded></%s>" % (direction, NS_C, NS_F, inner.replace("inner-%d" % n, "innerB-%d" % n).replace("inner-body-%d" % n, "innerB-body-%d" % n), direction)
    x = "<message%s to='%s' id='outer-%d' type='chat'>%s<%s xmlns='%s'><forwarded xmlns='%s'>%s</forwarded></%s>%s</message>" % (
        fa, wire.JID, n, pre, direction, car, fwd, core_inner, direction, post)
    return x, core_inner


SHAPES = ["plain"] * 6 + ["extra-before", "extra-after", "wrong-carbons-ns", "wrong-forward-ns", "forwarded-without-message", "nested", "nested", "buried-wrapper", "buried-wrapper", "two-wrappers", "delay-on-wrapper", "delay-on-wrapper", "delay-on-outer", "delay-on-both"]


def worker(args):
    wid, count = args
    binary = vf.build_harness("wire")
    r = vf.rng("c11", wid)
    pool = c17.load_pool()
    cases, metas = [], []
    per = 120
    n = 0
    for s0 in range(0, count, per):
        gen = r.choice(["carbons2", "carbons1"])
        history = "fresh"
        if gen == "carbons2" and r.random() < 0.35:
            # the same client object was used before: for another account, or for the same one; the judged session starts over the ordinary path
            # (carbons enabled by IQ) or with carbons enabled inline through SASL2 + Bind 2
            prev = r.choice(["other-account", "same-account"])
            path = r.choice(["iq", "bind2"])
            history = "%s-then-%s" % (prev, path)
            pj = PREV_ACCOUNT + "/x" if prev == "other-account" else wire.JID
            steps = [wire.client(managers=[gen], jid=pj)] + wire.login_sasl(sm=False, bind_jid=pj)
            steps += [wire.A("iq", child="enable", optional=True, timeout=500), wire.S("<iq type='result' id='$ID'/>", optional=True), dict(op="wait_signal", name="connected"),
                      dict(op="fence"), dict(op="disconnect"), dict(op="wait_signal", name="disconnected")]
            if path == "iq":
                steps += [dict(op="connect", jid=wire.JID, password=wire.PASSWORD, disabled=[])] + [s_ for s_ in wire.login_sasl(sm=True, sid="s2") if s_.get("op") != "connect"]
                steps += [wire.A("iq", child="enable", optional=True, timeout=500), wire.S("<iq type='result' id='$ID'/>", optional=True)]
            else:
                steps += [dict(op="connect", jid=wire.JID, password=wire.PASSWORD, sasl2=True, userAgent=True, disabled=[]), wire.A("stream:stream"),
                          wire.S(wire.hdr("s2") + wire.features(wire.f_sasl2(mechs=["PLAIN"], bind2=True, sm=True, bind_features=[NS_C]))), wire.A("authenticate"),
                          wire.S("<success xmlns='urn:xmpp:sasl:2'><authorization-identifier>%s</authorization-identifier><bound xmlns='urn:xmpp:bind:0'><enabled xmlns='urn:xmpp:sm:3' id='smid-b2'/></bound></success>" % wire.JID, smOn=True),
                          wire.S(wire.features()), wire.A("iq", child="query", optional=True, timeout=500), wire.S("<iq type='result' id='$ID'><query xmlns='jabber:iq:roster'/></iq>", optional=True)]
            steps += [dict(op="wait_signal", name="connected")]
        else:
            steps = [wire.client(managers=[gen])] + wire.login_sasl(sm=True) + [dict(op="wait_signal", name="connected")]
        inj = []
        for _ in range(min(per, count - s0)):
            n += 1
            cls = r.choice(list(SENDERS))
            if r.random() < 0.25:
                cls = "own-bare"
            if history.startswith("other-account") and r.random() < 0.3:
                cls = "previous-account"
            direction = r.choice(["sent", "received"])
            shape = r.choice(SHAPES)
            inner, ifrom, ito, ibody = inner_message(r, pool, n, direction)
            x, core = wrap(r, n, SENDERS[cls][0], direction, inner, shape)
            steps.append(wire.S(x))
            steps.append(dict(op="normalize", tag="inner-%d" % n, xml=inner))
            inj.append((n, cls, direction, shape, x, inner))
        steps += [dict(op="fence", sm=True), dict(op="settle", quiet=20), dict(op="fence", sm=True)]
        cases.append(dict(steps=steps, timeout=8000))
        metas.append((gen + ("" if history == "fresh" else " after " + history), inj))
    outs, crashes = wire.run_cases(binary, cases)
    viol, stats, inconc = [], collections.Counter(), []
    for rq, info in crashes:
        viol.append(("crash " + vf.crash_sig(info), "sanitizer report / abnormal exit of a connected client while handling carbons", {"stderr": info["stderr"][-3000:]}))
    for out, (gen, inj) in zip(outs, metas):
        if not out:
            continue
        j = out["journal"]
        if out["stalled"] >= 0:
            inconc.append("session stalled at step %s" % out["stalled"])
            continue
        presented = [e for e in j if e["ev"] == "cli_sig" and e["name"] in ("messageReceived", "carbon1.messageReceived", "carbon1.messageSent")]
        normalized = {e["tag"]: e.get("xml") for e in j if e["ev"] == "normalized"}
        if " after " in gen:
            stats["sessions_with_history:" + gen.split(" after ")[1]] += 1
        for (n, cls, direction, shape, x, inner) in inj:
            stats["injected"] += 1
            stats["class:" + SENDERS[cls][1]] += 1
            verdict = SENDERS[cls][1]
            marks = ("inner-%d" % n, "inner-body-%d" % n)
            unwrapped = [p for p in presented if p.get("id") == marks[0] or p.get("body") == marks[1]]
            deeper = [p for p in presented if p.get("id") in ("inner2-%d" % n,) or p.get("body") == "inner2-body-%d" % n]
            w = {"manager": gen, "sender_class": cls, "shape": shape, "stanza": x[:1500], "presented": [{k: p.get(k) for k in ("name", "id", "from", "to", "body", "carbon")} for p in unwrapped + deeper]}
            if deeper:
                viol.append(("unwrapped-twice %s" % gen, "a carbon nested inside a carbon was unwrapped and presented as a conversation message", w))
            should_unwrap = verdict == "accept" and shape in ("plain", "extra-before", "extra-after", "nested", "two-wrappers", "delay-on-wrapper", "delay-on-outer", "delay-on-both")
            if verdict == "reject" or shape == "buried-wrapper" or (verdict == "accept" and shape in ("wrong-carbons-ns", "wrong-forward-ns", "forwarded-without-message")):
                if unwrapped:
                    why = "sender " + cls if verdict == "reject" and shape != "buried-wrapper" else "shape " + shape
                    viol.append(("forged-carbon-unwrapped %s %s" % (why, gen), "the inner message of a carbon wrapper was presented although %s" % (
                        "the outer stanza does not come from the user's own bare address (%s)" % cls if verdict == "reject" else "the wrapper is not a valid carbon (%s)" % shape), w))
                else:
                    stats["rejected_ok"] += 1
            elif should_unwrap:
                if len(unwrapped) != 1:
                    viol.append(("own-carbon-not-presented-once got=%d %s %s" % (len(unwrapped), shape, gen), "a carbon from the own bare JID was presented %d times" % len(unwrapped), w))
                    continue
                p = unwrapped[0]
                want_sig = "messageReceived" if gen.startswith("carbons2") else ("carbon1.messageSent" if direction == "sent" else "carbon1.messageReceived")
                bad = None
                if not p.get("carbon"):
                    bad = "not-flagged-forwarded"
                elif p["name"] != want_sig:
                    bad = "wrong-signal"
                else:
                    try:
                        norm = normalized.get("inner-%d" % n)
                        if shape == "nested":
                            norm = None   # inner differs by the nested wrapper; identity is checked by id/body only
                        if norm is not None and canon(minidom.parseString(p["xml"].encode("utf8")).documentElement) != canon(minidom.parseString(norm.encode("utf8")).documentElement):
                            bad = "differs-from-inner"
                    except Exception as e:
                        bad = "unparseable"
                if bad:
                    viol.append(("own-carbon-%s %s" % (bad, gen), "what is presented for a genuine carbon is not exactly the inner message flagged as forwarded (%s)" % bad, dict(w, presented_xml=p.get("xml"), inner=inner)))
                else:
                    stats["accepted_ok"] += 1
            else:
                stats["dontcare"] += 1
    return viol, dict(stats), inconc


def main(tier, replay=None):
    V = vf.Verdict("C11", tier)
    vf.build_harness("wire")
    total = 30000 if tier == "quick" else 1000000
    W = vf.NPROC
    with ProcessPoolExecutor(max_workers=W) as pool:
        res = list(pool.map(worker, [(w, total // W) for w in range(W)]))
    stats = collections.Counter()
    for viol, st, inconc in res:
        for sig, what, w in viol:
            V.violation(sig, what, w)
        for i in inconc:
            V.inconc(i)
        stats.update(st)
    cov = {"evaluations": stats["injected"], "distinct_nontrivial": stats["rejected_ok"] + stats["accepted_ok"],
           "rule": "carbon wrappers injected by a fake server into a real connected client with QXmppCarbonManagerV2 or QXmppCarbonManager: %d outer sender classes (own bare = accept; own full JIDs, look-alike domains, prefix/suffix, resource tricks, "
                   "contacts, server = reject; case variants, empty and absent from = not judged) x sent/received x random inner messages built from the fixture extension pool x 9 wrapper shapes (extra payloads, wrong namespaces, "
                   "forwarded without message, a second wrapper of either direction nested in the inner message or buried in an extension of it, a wrapper buried in a MAM result / forwarded message / application extension of a stanza that is no carbon, two wrappers, a <delay/> on the <forwarded/> element and/or on the outer stanza); every message object the application sees is recorded (messageReceived, V1 messageSent/messageReceived); unique ids/bodies tie presentations to wrappers" % len(SENDERS),
           "observed": dict(stats), "samples": [{"outer_from": "alice@evil-example.org", "expected": "not unwrapped"}]}
    floors = {"rejected_ok": stats["rejected_ok"] > 100, "accepted_ok": stats["accepted_ok"] > 100}
    V.finish(cov, "exploration", ["case variants of the own JID and stanzas without from are not judged (the statement leaves them open)", "loopback TCP; messages presented later than the settle window would be missed"], floors)
