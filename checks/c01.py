"""C01 — stanza codecs lose nothing (engine: codec): scalar helpers, document level with transparent-position probing, injection"""
import json, os, re, sys
import vf, codecdrv

WHAT = {
    "own-output-changes": "a document in the library's own output form changes under parse->serialize",
    "own-output-refused": "the type's parser refuses the library's own output",
    "own-output-not-admitted": "the type's own type check refuses the library's own output",
    "output-not-wellformed": "serializer output is not well-formed XML",
    "free-text-value-altered": "a free-text position does not round-trip a hostile value verbatim",
    "free-text-value-refused": "a free-text position makes the parser refuse the element for a hostile value",
    "free-text-value-breaks-type-check": "a free-text value makes the type check refuse the element",
    "markup-injection": "a field value changes the element structure of the output",
    "int-roundtrip": "parseInt(serializeInt(v)) != v", "int-roundtrip-upper-half": "parseInt(serializeInt(v)) != v for the upper half of an unsigned type",
    "int-accepts-out-of-range": "parseInt accepts a string outside the type's range / lexical space",
}


# fields that legitimately never appear in the serialized form of the object states the harness can build
DORMANT_OK = {
    "QXmppMessage.setE2eeFallbackBody": "only consulted by the encrypted send path, which replaces the body; never part of toXml() output",
    "QXmppMixIq.setNodes": "deprecated alias kept for source compatibility; superseded by setSubscriptions()",
    "QXmppIq.setExtendedAddresses": "XEP-0033 addressing is for message and presence; an IQ keeps a received <addresses/> as an unknown extension (round trip at document level is covered by layers 2/3)",
}


def ns_map():
    """tag -> most frequent namespace in the corpus (nested serializers rely on their parent's default namespace)"""
    import collections
    import xml.etree.ElementTree as ET
    ns = collections.defaultdict(collections.Counter)
    for l in open(codecdrv.SEEDS):
        try:
            root = ET.fromstring(json.loads(l)["xml"])
        except Exception:
            continue
        for el in root.iter():
            if el.tag.startswith("{"):
                u, t = el.tag[1:].split("}")
                ns[t][u] += 1
    return {t: c.most_common(1)[0][0] for t, c in ns.items()}


def objs_map():
    """"tag|namespace" -> up to 6 distinct elements of the corpus (values for the object-valued fields)"""
    import collections
    from xml.dom import minidom
    out = collections.defaultdict(list)

    def walk(el):
        if el.nodeType != 1:
            return
        k = "%s|%s" % (el.localName, el.namespaceURI or "")
        x = el.toxml()
        if len(out[k]) < 6 and x not in out[k] and len(x) < 3000:
            # a detached element must carry its own namespace declaration
            if el.namespaceURI and not el.hasAttribute("xmlns") and not el.prefix:
                el = el.cloneNode(True)
                el.setAttribute("xmlns", el.namespaceURI or "")
                x = el.toxml()
            out[k].append(x)
        for c in el.childNodes:
            walk(c)
    for l in open(codecdrv.SEEDS):
        try:
            walk(minidom.parseString(json.loads(l)["xml"].encode("utf8")).documentElement)
        except Exception:
            continue
    out["authentication|urn:xmpp:sasl:2"] = out.get("authentication|urn:xmpp:sasl:2", []) + [
        "<authentication xmlns='urn:xmpp:sasl:2'><mechanism>SCRAM-SHA-256</mechanism><inline><sm xmlns='urn:xmpp:sm:3'/></inline></authentication>",
        "<authentication xmlns='urn:xmpp:sasl:2'><mechanism>PLAIN</mechanism><inline><bind xmlns='urn:xmpp:bind:0'><inline><feature var='urn:xmpp:sm:3'/></inline></bind><sm xmlns='urn:xmpp:sm:3'/><fast xmlns='urn:xmpp:fast:0'><mechanism>HT-SHA-256-NONE</mechanism></fast></inline></authentication>"]
    out["unknown|urn:example:unknown"] = ["<unknown xmlns='urn:example:unknown' a='1'><child>t&amp;&lt;x</child></unknown>", "<other xmlns='urn:example:other'/>"]
    return {k: v for k, v in out.items()}


def run_fields(binary, seed, nsm):
    """layer 1: setter-built objects. Restarts the harness behind a field that kills it."""
    import subprocess
    skip, recs, crashes = 0, [], []
    for _ in range(60):
        try:
            p = subprocess.run([binary], input=json.dumps({"n": 1, "seed": seed, "ns": nsm, "objs": OBJS, "skip": skip}) + "\n", capture_output=True, text=True, env=vf.env_for(), timeout=1800)
        except subprocess.TimeoutExpired:
            crashes.append({"field": "?", "sig": "timeout", "stderr": ""})
            break
        last, done = None, False
        for l in p.stdout.splitlines():
            if l.startswith("FIELD"):
                last = l.split()
            elif l.startswith("{"):
                r = json.loads(l)
                if r.get("summary"):
                    done = True
                else:
                    recs.append(r)
        if done:
            break
        if last is None:
            raise vf.HarnessFailure("fields harness died before the first field: %s" % p.stderr[-2000:])
        crashes.append({"field": "%s.%s" % (last[2], last[3]), "sig": vf.san_signature(p.stderr) or "abnormal exit %s" % p.returncode, "stderr": p.stderr[-3000:]})
        skip = int(last[1])
    return recs, crashes


OBJS = {}


def fields_layer(V, tier):
    global OBJS
    fb = vf.build_harness("fields")
    nsm = ns_map()
    need = set(re.findall(r'"([A-Za-z-]+\|[^"]*)"\);', open(os.path.join(vf.VERIF, "harness", "fields_hand.h")).read()))
    allobjs = objs_map()
    OBJS = {k: allobjs.get(k, []) for k in need}
    seeds = [vf.SEED * 1000 + i for i in range(1 if tier == "quick" else 48)]
    out = vf.pmap(lambda sd: run_fields(fb, sd, nsm), seeds)
    st = {"fields": set(), "live_fields": set(), "live_states": 0, "values": 0, "excluded": {}, "dormant": set()}
    for recs, crashes in out:
        for c in crashes:
            V.violation("setter-built %s crash %s" % (c["field"], c["sig"]), "%s: sanitizer report / abnormal exit while serializing or parsing an object built with the setters" % c["field"], c)
        for r in recs:
            if r.get("combination"):
                st["combinations"] = st.get("combinations", 0) + r["tried"]
                st.setdefault("classes_with_combinations", set()).add(r["cls"])
                for f in r["fails"]:
                    kind = "output-not-wellformed" if "not well-formed" in f["problem"] else "own-output-refused" if "refused" in f["problem"] else "serializes-differently" if "serializes differently" in f["problem"] else "unset-field-changed" if "was not set changed" in f["problem"] else "value-lost"
                    V.violation("setter-built combination %s%s %s" % (r["cls"], "." + f["lost"] if f["lost"] else "", kind),
                                "%s: several fields set at once (each to a value that survives when set alone): %s" % (r["cls"], f["problem"][:200]),
                                {"class": r["cls"], "state": f["state"], "fields": f["fields"], "values": f["values"], "problem": f["problem"], "xml": f["xml"]})
                continue
            k = "%s.%s" % (r["cls"], r["field"])
            if "excluded" in r:
                st["excluded"][k] = r["excluded"]
                continue
            st["fields"].add(k)
            if not r["live"]:
                continue
            st["live_fields"].add(k)
            st["live_states"] += 1
            st["values"] += r["tried"]
            for f in r["fails"]:
                kind = "output-not-wellformed" if "not well-formed" in f["got"] else "own-output-refused" if "refused" in f["got"] else "unset-field-changed" if "was not set changed" in f["got"] else "value-lost"
                V.violation("setter-built %s %s" % (k, kind), "%s: a value of the field's type set with the setter is not what the getter reports after serialize -> parse (state %s)" % (k, r["state"]),
                            {"class": r["cls"], "setter": r["field"], "state": r["state"], "value_set": f["value"], "value_after_roundtrip": f["got"], "xml": f["xml"]})
    st["dormant"] = sorted(st["fields"] - st["live_fields"])
    for k in st["dormant"]:
        # a field with a setter and a getter that survives serialize -> parse in no object state at all is lost outright
        if k not in DORMANT_OK and not any(c["field"] == k for _, crashes in out for c in crashes):
            probe = next((r for recs, _ in out for r in recs if "%s.%s" % (r["cls"], r["field"]) == k), {})
            V.violation("setter-built %s never-survives" % k, "%s: not even a benign value set with the setter is reported by the getter after serialize -> parse, in any object state" % k,
                        {"field": k, "probe_xml": probe.get("probe_xml"), "getter_after_roundtrip": probe.get("probe_got"), "states_tried": sorted(set(r["state"] for recs, _ in out for r in recs if "%s.%s" % (r["cls"], r["field"]) == k))})
    return st


def main(tier, replay=None):
    V = vf.Verdict("C01", tier)
    binary = vf.build_harness("codec")
    fst = fields_layer(V, tier) if not replay else None
    W = vf.NPROC
    maxpos = 3 if tier == "quick" else 1000
    jobs = [("scalars",)] + [("c01doc", codecdrv.SEEDS, vf.SEED, w, W, maxpos) for w in range(W)]
    if replay:
        w = json.load(open(replay))["witness"]
        jobs = [tuple(w["harness_args"]) + ((str(w["case"]),) if w.get("case") is not None and int(w["case"]) >= 0 and len(w["harness_args"]) == 6 else ())]
    res = vf.pmap(lambda a: (a, codecdrv.run_worker_restarting(binary, a, timeout=14000)), jobs)
    types = {}
    evals = 0
    samples = []
    for args, (viols, sums, crashes) in res:
        for o in viols:
            kind = o["violation"].split(" ")[0]
            V.violation("%s %s" % (o["violation"], o["type"]), "%s: %s" % (o["type"], WHAT.get(kind, kind)), dict(o, harness_args=[str(x) for x in args]))
        for c in crashes:
            codecdrv.add_crash(V, c, args, "c01 worker")
        for s in sums:
            evals += int(s["evaluations"])
            for k, v in s.get("types", {}).items():
                t = types.setdefault(k, [0] * 6)
                for i in range(6):
                    t[i] += int(v[i])
        if not sums and not crashes:
            raise vf.HarnessFailure("codec worker produced no summary: %s" % (args,))
    no_rt = [k for k, v in types.items() if v[1] == 0 and k != "StreamErrorElement"]
    tot = [sum(v[i] for v in types.values()) for i in range(6)]
    samples.append({"type": "QXmppMessage", "counters[pairs, own-output-stable, positions, transparent, hostile-ok, weak-ok]": types.get("QXmppMessage")})
    if fst:
        evals += fst["values"]
    cov = {"evaluations": evals, "distinct_nontrivial": tot[4] + tot[5] + tot[1] + (fst["live_states"] if fst else 0),
           "setter_built": None if not fst else {"fields": len(fst["fields"]), "fields_live_in_some_state": len(fst["live_fields"]), "live_field_states": fst["live_states"], "values_round_tripped": fst["values"], "combinations_round_tripped": fst.get("combinations", 0), "classes_with_combinations": len(fst.get("classes_with_combinations", ())),
                                                  "dormant_fields_not_judged": fst["dormant"], "excluded": fst["excluded"]},
           "rule": "layer 1: objects built with the library's setters: for every (class, setter, getter) of harness/fields_gen.h + fields_hand.h and every object state in which a benign probe value survives serialize->parse->getter, "
                   "boundary and random values of the setter's C++ parameter type (integers at all width boundaries, doubles with 12+ significant digits, hostile strings, date-times with ms and offsets, URLs, lists) must survive too; "
                   "layer 0: exhaustive 8/16-bit and boundary/random 32/64-bit integer round trips, booleans, base64 of every length 0..300, 40000 date-times, all minute offsets; "
                   "layer 2/3: for every (seed document, registered type) pair the type admits: own output must be stable; every text/attribute position (quick: <=3 sampled per pair) is probed with a benign token - "
                   "if that round-trips exactly the position is free text and 4 hostile values (markup, quotes, non-BMP, interior whitespace) must round-trip verbatim without changing the element skeleton; "
                   "on other positions only self-consistency of the output is required. distinct_nontrivial = stable own outputs + hostile substitutions confirmed + weak checks confirmed",
           "totals[pairs, own-output-stable, positions, transparent, hostile-ok, weak-ok]": tot, "per_type": types, "types_without_admitted_roundtrip": no_rt, "samples": samples}
    floors = {"pairs>0": tot[0] > 0, "transparent>0": tot[3] > 0, "types_with_roundtrip>=100": (len(types) - len(no_rt)) >= 100, "setter_fields_live>=200": len(fst["live_fields"]) >= 200} if not replay else {}
    V.finish(cov, "exploration", ["Qt's XML reader/writer/DOM are trusted", "seed documents come from the repository's tests; types with no seed are only reached by layer 0 and by C02's cross-application",
                                  "setter-built objects cover the scalar/string/date/list setters of the registered classes (enum-, struct- and list-of-object-valued setters are reached through the document layers only); a field is judged only in object states where a benign value survives"], floors)
