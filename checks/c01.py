"""C01 — stanza codecs lose nothing (engine: codec): scalar helpers, document level with transparent-position probing, injection"""
import json, os, sys
import vf, codecdrv

WHAT = {
    "own-output-changes": "a document in the library's own output form changes under parse->serialize",
    "own-output-refused": "the type's parser refuses the library's own output",
    "own-output-not-admitted": "the type's own type check refuses the library's own output",
    "output-not-wellformed": "serializer output is not well-formed XML",
    "free-text-value-altered": "a free-text position does not round-trip a hostile value verbatim",
    "free-text-value-refused": "a free-text position makes the parser refuse the element for a hostile value",
    "free-text-value-breaks-type-check": "a free-text value makes the type check refuse the element",
    "markup-injection": "a field value changes the element structure of the output",
    "int-roundtrip": "parseInt(serializeInt(v)) != v", "int-roundtrip-upper-half": "parseInt(serializeInt(v)) != v for the upper half of an unsigned type",
    "int-accepts-out-of-range": "parseInt accepts a string outside the type's range / lexical space",
}


def main(tier, replay=None):
    V = vf.Verdict("C01", tier)
    binary = vf.build_harness("codec")
    W = vf.NPROC
    maxpos = 3 if tier == "quick" else 1000
    jobs = [("scalars",)] + [("c01doc", codecdrv.SEEDS, vf.SEED, w, W, maxpos) for w in range(W)]
    if replay:
        w = json.load(open(replay))["witness"]
        jobs = [tuple(w["harness_args"]) + ((str(w["case"]),) if w.get("case") is not None and int(w["case"]) >= 0 and len(w["harness_args"]) == 6 else ())]
    res = vf.pmap(lambda a: (a, codecdrv.run_worker_restarting(binary, a, timeout=14000)), jobs)
    types = {}
    evals = 0
    samples = []
    for args, (viols, sums, crashes) in res:
        for o in viols:
            kind = o["violation"].split(" ")[0]
            V.violation("%s %s" % (o["violation"], o["type"]), "%s: %s" % (o["type"], WHAT.get(kind, kind)), dict(o, harness_args=[str(x) for x in args]))
        for c in crashes:
            codecdrv.add_crash(V, c, args, "c01 worker")
        for s in sums:
            evals += int(s["evaluations"])
            for k, v in s.get("types", {}).items():
                t = types.setdefault(k, [0] * 6)
                for i in range(6):
                    t[i] += int(v[i])
        if not sums and not crashes:
            raise vf.HarnessFailure("codec worker produced no summary: %s" % (args,))
    no_rt = [k for k, v in types.items() if v[1] == 0 and k != "StreamErrorElement"]
    tot = [sum(v[i] for v in types.values()) for i in range(6)]
    samples.append({"type": "QXmppMessage", "counters[pairs, own-output-stable, positions, transparent, hostile-ok, weak-ok]": types.get("QXmppMessage")})
    cov = {"evaluations": evals, "distinct_nontrivial": tot[4] + tot[5] + tot[1],
           "rule": "layer 0: exhaustive 8/16-bit and boundary/random 32/64-bit integer round trips, booleans, base64 of every length 0..300, 40000 date-times, all minute offsets; "
                   "layer 2/3: for every (seed document, registered type) pair the type admits: own output must be stable; every text/attribute position (quick: <=3 sampled per pair) is probed with a benign token - "
                   "if that round-trips exactly the position is free text and 4 hostile values (markup, quotes, non-BMP, interior whitespace) must round-trip verbatim without changing the element skeleton; "
                   "on other positions only self-consistency of the output is required. distinct_nontrivial = stable own outputs + hostile substitutions confirmed + weak checks confirmed",
           "totals[pairs, own-output-stable, positions, transparent, hostile-ok, weak-ok]": tot, "per_type": types, "types_without_admitted_roundtrip": no_rt, "samples": samples}
    floors = {"pairs>0": tot[0] > 0, "transparent>0": tot[3] > 0, "types_with_roundtrip>=100": (len(types) - len(no_rt)) >= 100} if not replay else {}
    V.finish(cov, "exploration", ["Qt's XML reader/writer/DOM are trusted", "seed documents come from the repository's tests; types with no seed are only reached by layer 0 and by C02's cross-application",
                                  "setter-built objects (layer 1 of DESIGN) are covered for QXmppMessage in the C17 check only"], floors)
