"""C08 — every incoming IQ request is answered exactly once; responses are never answered (engine: wire)"""
import collections, json, os, sys
from concurrent.futures import ProcessPoolExecutor
from xml.dom import minidom
import vf, wire

ALL_MANAGERS = ["carbons2", "mam", "pubsub", "blocking", "upload", "extdisco", "mix", "receipts", "time"]
SENDERS = {
    "server-nofrom": None, "server-domain": "example.org", "own-bare": wire.BARE, "own-full": wire.JID,
    "contact": "bob@example.org/phone", "stranger": "mallory@evil.example/x",
}


def load_payloads():
    """first child (and all children) of every IQ seed: every namespace a bundled manager listens to"""
    out, seen = [], set()
    for l in open(os.path.join(vf.VERIF, "corpus", "seeds.jsonl")):
        o = json.loads(l)
        if o["root"] != "iq":
            continue
        d = minidom.parseString(o["xml"].encode("utf8")).documentElement
        kids = [c for c in d.childNodes if c.nodeType == 1 and c.localName != "error"]
        if not kids:
            continue
        k = (kids[0].namespaceURI, kids[0].localName)
        x = kids[0].toxml()
        if (k, len(x) // 200) in seen:
            continue
        seen.add((k, len(x) // 200))
        out.append(("%s|%s" % (k[1], k[0]), x))
    out.append(("unknown|urn:example:unknown", "<unknown xmlns='urn:example:unknown'><x/></unknown>"))
    out.append(("none", ""))
    out.append(("several", "<ping xmlns='urn:xmpp:ping'/><query xmlns='jabber:iq:version'/>"))
    return out


def worker(args):
    wid, sessions = args
    binary = vf.build_harness("wire")
    cases, metas = [], []
    for (managers_name, managers, bare, inj, *mode) in sessions:
        resume = "resume" in mode
        steps = [wire.client(managers=managers, bare=bare)] + wire.login_sasl(sm=True, roster=not bare, resumable=resume)
        if resume:
            # the server counts the replies it receives but never says so before the connection is lost: after the resumption (with a
            # handled-count that covers them) no reply may come a second time
            for s_ in steps:
                if s_.get("smOn"):
                    s_["manualAck"] = True
        steps.append(dict(op="wait_signal", name="connected"))
        if not bare and len(inj) > 1:
            # one outstanding request whose id some injected requests will duplicate
            steps.append(dict(op="sendIq", req="outstanding", id="dup-req-1", to="example.org"))
        for (iid, typ, frm, payload, *own) in inj:
            if own:
                # a request of our own with the same id is outstanding when the injected IQ arrives
                steps.append(dict(op="sendIq", req="own-" + iid, id=iid, **own[0]))
            attrs = " id='%s'" % iid if iid is not None else ""
            if typ is not None:
                attrs += " type='%s'" % typ
            if frm is not None:
                attrs += " from='%s'" % frm
            steps.append(wire.S("<iq%s>%s</iq>" % (attrs, payload)))
        steps.append(dict(op="fence", sm=True, optional=True))
        steps.append(dict(op="settle", quiet=30))
        steps.append(dict(op="fence", sm=True, optional=True))
        if resume:
            steps += [dict(op="cut"), dict(op="wait_signal", name="disconnected")] + wire.relogin(resume="accept", roster=False) + [dict(op="wait_signal", name="connected", optional=True, timeout=1500)]
            steps += [dict(op="fence", sm=True, optional=True), dict(op="settle", quiet=30), dict(op="fence", sm=True, optional=True)]
        cases.append(dict(steps=steps, timeout=8000 if len(inj) > 1 else 1500, stopOnStall=len(inj) > 1))
        metas.append((managers_name + (" resumed" if resume else ""), inj))
    outs, crashes = wire.run_cases(binary, cases)
    viol, stats = [], collections.Counter()
    for rq, info in crashes:
        viol.append(("crash " + vf.crash_sig(info), "sanitizer report / abnormal exit of a connected client while handling IQs", {"stderr": info["stderr"][-3000:]}))
    inconc = []
    for out, (mname, inj) in zip(outs, metas):
        if not out:
            continue
        j = out["journal"]
        if mname.endswith(" resumed"):
            if any(e["ev"] == "srv_tx" and "<resumed " in e.get("xml", "") for e in j):
                stats["resumed_sessions"] += 1
            else:
                inconc.append("resumption was not reached: %s" % [e for e in j if e["ev"] == "await_failed"][:1])
                continue
        odd_session = len(inj) == 1 and inj[0][1] not in ("get", "set", "result", "error")
        if (out["stalled"] >= 0 or not any(e["ev"] == "fence_done" for e in j)) and not odd_session:
            fails = [e for e in j if e["ev"] == "await_failed"]
            closed = [e for e in j if e["ev"] in ("srv_peer_closed",) or (e["ev"] == "cli_sig" and e["name"] in ("disconnected", "errorOccurred"))]
            last_tx = [e for e in j if e["ev"] == "srv_tx"][-1:]
            inconc.append("session stalled at step %s: %s; first close/error event: %s; last element sent: %s" % (out["stalled"], fails[:1], closed[:1], [x.get("xml", "")[:300] for x in last_tx]))
            continue
        replies = collections.defaultdict(list)
        for e in wire.srv_rx(j):
            if e["tag"] == "iq" and e["type"] in ("result", "error"):
                replies[e["id"]].append(e)
        done = [e for e in j if e["ev"] == "iq_done" and e["req"] == "outstanding"]
        own_done = collections.defaultdict(list)
        for e in j:
            if e["ev"] == "iq_done" and e["req"].startswith("own-"):
                own_done[e["req"][4:]].append(e)
        for (iid, typ, frm, payload, *own) in inj:
            stats["injected"] += 1
            if own:
                stats["id_collisions"] += 1
                # the own request must not be completed by the peer's *request* (a completion by anything but a result / an error,
                # or before any response was sent, is the same defect seen from the other side)
                early = [d for d in own_done.get(iid, []) if d.get("kind") not in ("result", "error")]
                if early:
                    viol.append(("own-request-completed-by-a-request %s" % typ, "an outstanding request of the client was completed by an incoming IQ of type %s that carries the same id" % typ,
                                 {"managers": mname, "iq": {"id": iid, "type": typ, "from": frm, "payload": payload[:300]}, "own_request": own[0], "completion": early[0]}))
            got = replies.get(iid if iid is not None else "", [])
            pname = payload_name(payload)
            sender = next((k for k, v in SENDERS.items() if v == frm), "?")
            w = {"managers": mname, "iq": {"id": iid, "type": typ, "from": frm, "payload": payload[:500]}, "replies": [g["xml"][:400] for g in got]}
            if own:
                w["own_outstanding_request_with_the_same_id"] = own[0]
            if iid is not None and iid.startswith("echo-"):
                # a request directly followed by a response with the same sender and id (our reply bounced, or a confused peer):
                # one reply for the pair - the one to the request
                if typ in ("get", "set"):
                    stats["requests"] += 1
                    if len(got) == 0:
                        viol.append(("request-unanswered %s %s other-entity [%s]" % (typ, pname, mname), "IQ %s request %s from %s got no reply at all" % (typ, pname, sender), w))
                else:
                    stats["responses"] += 1
                    stats["echo_pairs"] += 1
                    if len(got) > 1:
                        viol.append(("response-answered %s %s [%s] (same sender and id as the request before it)" % (typ, pname, mname),
                                     "an IQ of type %s that directly follows a request with the same sender and id was answered as if it were a request" % typ, w))
                    else:
                        stats["responses_silent"] += 1
                continue
            if typ in ("get", "set"):
                stats["requests"] += 1
                if len(got) == 0:
                    viol.append(("request-unanswered %s %s %s [%s]%s" % (typ, pname, "own-or-server" if sender in ("server-nofrom", "server-domain", "own-bare", "own-full") else "other-entity", mname, " (id of an own outstanding request)" if own else ""),
                                 "IQ %s request %s from %s got no reply at all" % (typ, pname, sender), w))
                elif len(got) > 1:
                    viol.append(("request-answered-%d-times %s %s [%s]" % (len(got), typ, pname, mname), "IQ request answered more than once", w))
                else:
                    stats["answered_once"] += 1
                    to = got[0]["to"]
                    # a reply without 'to' goes to the user's own server/account, which is the requester in these cases
                    ok = (to == (frm or "")) or (to == "" and sender in ("server-nofrom", "server-domain", "own-bare", "own-full"))
                    if not ok:
                        viol.append(("reply-misaddressed %s [%s]" % (sender, mname), "reply is addressed to %r, the request came from %r" % (to, frm), w))
            elif typ in ("result", "error"):
                stats["responses"] += 1
                if got:
                    viol.append(("response-answered %s %s [%s]" % (typ, pname, mname), "an IQ of type %s was answered" % typ, w))
                else:
                    stats["responses_silent"] += 1
            else:
                stats["odd_type"] += 1
                if len(got) > 1:
                    viol.append(("odd-type-answered-twice", "IQ without valid type answered more than once", w))
        if done and any(d["kind"] != "error" or "isconnected" not in d.get("text", "").lower() for d in done):
            # the outstanding request to example.org may only be completed by example.org / the server (checked by C07); here: not by the duplicates from others
            pass
    return viol, dict(stats), inconc


def payload_name(p):
    if not p:
        return "none"
    try:
        d = minidom.parseString(("<w>%s</w>" % p).encode("utf8")).documentElement
        kids = [c for c in d.childNodes if c.nodeType == 1]
        if len(kids) > 1:
            return "several"
        return "%s|%s" % (kids[0].localName, kids[0].namespaceURI)
    except Exception:
        return "?"


def main(tier, replay=None):
    V = vf.Verdict("C08", tier)
    vf.build_harness("wire")
    r = vf.rng("c08")
    payloads = load_payloads()
    configs = [("none", [], True), ("defaults", [], False), ("all", ALL_MANAGERS, False)]
    combos = []
    for pname, p in payloads:
        for typ in ("get", "set", "result", "error"):
            for sender in (list(SENDERS) if tier != "quick" else ["server-nofrom", "own-bare", "contact", "stranger"]):
                combos.append((typ, SENDERS[sender], p))
    odd = [(typ, None, p) for p in [payloads[0][1], payloads[-3][1]] for typ in (None, "garbage", "")]
    sessions = []
    per = 150
    for cname, managers, bare in configs * (1 if tier == "quick" else 12):   # thorough: 12 different orders (what precedes an IQ matters to caches and one-shot state)
        cc = list(combos)
        r.shuffle(cc)
        for k in range(0, len(cc), per):
            inj = []
            for i, (typ, frm, p) in enumerate(cc[k:k + per]):
                inj.append(("inj-%d-%d" % (k, i), typ, frm, p))
            # specials: duplicate of an outstanding request's id from another entity, empty id
            inj.append(("dup-req-1", "get", "mallory@evil.example/x", "<ping xmlns='urn:xmpp:ping'/>"))
            inj.append((None, "get", "bob@example.org/phone", "<query xmlns='jabber:iq:version'/>"))
            sessions.append((cname, managers, bare, inj))
        # echo pairs: every payload kind as a request, directly followed by a result / an error with the same sender, id (and payload)
        ep = []
        for pi, (pname, p) in enumerate(payloads):
            for rt in ("result", "error"):
                for frm in ("contact", "server-domain"):
                    eid = "echo-%s-%d-%s-%s-%d" % (cname, pi, rt, frm, len(sessions))
                    body = p if rt == "result" else p + "<error type='cancel'><service-unavailable xmlns='urn:ietf:params:xml:ns:xmpp-stanzas'/></error>"
                    ep.append([(eid, r.choice(["get", "set"]), SENDERS[frm], p), (eid, rt, SENDERS[frm], body)])
        r.shuffle(ep)
        for k in range(0, len(ep), 60):
            sessions.append((cname, managers, bare, [x for pair in ep[k:k + 60] for x in pair]))
        # answered on a session that is lost and resumed afterwards (replies unacknowledged at the loss, covered by <resumed h/>)
        if not bare:
            rs = [c_ for c_ in combos if c_[0] in ("get", "set")]
            r.shuffle(rs)
            sessions.append((cname, managers, bare, [("res-%s-%d" % (cname, i), typ, frm, p) for i, (typ, frm, p) in enumerate(rs[:60])], "resume"))
        # id collisions: two clients of this library number their requests alike (qxmpp1, qxmpp2, ...), so a peer's request can carry
        # the id of a request of ours that is still outstanding - to that very peer, to the server, or to someone else
        if not bare:
            col = []
            cpay = [payloads[i][1] for i in range(0, len(payloads), max(1, len(payloads) // 6))][:6] + ["<ping xmlns='urn:xmpp:ping'/>", "<unknown xmlns='urn:example:unknown'/>", ""]
            for ti, (to, senders) in enumerate([("example.org", ["server-domain", "server-nofrom", "contact"]), ("bob@example.org/phone", ["contact", "server-nofrom", "stranger"]),
                                                (None, ["server-nofrom", "own-bare", "server-domain", "contact"]), (wire.BARE, ["own-bare", "server-nofrom"])]):
                for sender in senders:
                    for typ in ("get", "set"):
                        for pi, p in enumerate(cpay):
                            own = dict(type=r.choice(["get", "set"]), payload="<query xmlns='jabber:iq:version'/>")
                            if to is not None:
                                own["to"] = to
                            col.append(("col-%s-%d-%s-%s-%d" % (cname, ti, sender, typ, pi), typ, SENDERS[sender], p, own))
            r.shuffle(col)
            for k in range(0, len(col), 70):
                sessions.append((cname, managers, bare, col[k:k + 70]))
        # an IQ whose type is absent or not one of the four values makes the client close the stream ("unexpected element"):
        # allowed (DON'T-CARE), so each gets a session of its own and only "at most one reply, no crash" is required
        for i, (typ, frm, p) in enumerate(odd):
            sessions.append((cname, managers, bare, [("odd-%d" % i, typ, frm, p)]))
    W = vf.NPROC
    parts = [sessions[w::W] for w in range(W)]
    with ProcessPoolExecutor(max_workers=W) as pool:
        res = list(pool.map(worker, [(w, parts[w]) for w in range(W)]))
    stats = collections.Counter()
    for viol, st, inconc in res:
        for sig, what, w in viol:
            V.violation(sig, what, w)
        for i in inconc:
            V.inconc(i)
        stats.update(st)
    cov = {"evaluations": stats["injected"], "distinct_nontrivial": stats["answered_once"] + stats["responses_silent"],
           "rule": "IQs injected by a fake server into a real, connected QXmppClient: type {get,set,result,error,absent,garbage,empty} x payload (first child of each of the %d distinct IQ payload kinds of the fixtures, unknown, none, several) "
                   "x sender (%s) x extension set {none, defaults, all bundled managers}, unique ids, plus an id duplicating an outstanding request, an absent id, id collisions (a request of the client's own with the same id is outstanding - to that peer, to the server, to the own account or to someone else - when the request arrives; the own request must not be completed by it), sessions that are lost and resumed after the requests were answered (replies unacknowledged at the loss, covered by the <resumed h/>: none may come again), and echo pairs (every payload kind as a request directly followed by a result / an error with the same sender and id: one reply for the pair); replies counted on the server transcript after an XEP-0198 fence, "
                   "an idle settle and a second fence; distinct_nontrivial = requests answered exactly once + responses left unanswered" % (len(payloads), "6 senders" if tier != "quick" else "4 senders"),
           "observed": dict(stats), "payload_kinds": len(payloads), "sessions": len(sessions), "samples": [{"iq": "<iq id='inj-0-0' type='get' from='bob@example.org/phone'>%s</iq>" % payloads[3][1][:200]}]}
    floors = {"resumed_sessions": stats["resumed_sessions"] >= 2, "id_collisions": stats["id_collisions"] > 100, "requests": stats["requests"] > 100, "responses": stats["responses"] > 100, "answered_once": stats["answered_once"] > 0, "echo_pairs": stats["echo_pairs"] > 100}
    V.finish(cov, "exploration", ["counting happens on the fake server's transcript of a loopback TCP connection", "a reply produced later than the settle window (30 ms of silence after an XEP-0198 fence) would be missed"], floors)
