"""C13 — a continuation runs exactly once and never on a dead context (engine: task)

Enumerates every ordering (up to a length bound) of the promise/task operations the statement names and runs each on
the real QXmppPromise/QXmppTask under ASan+UBSan, with invocation counters, identity-tagged values, a captured token per
continuation and an operator new/delete balance.  Expected invocation counts are derived from the statement alone.
"""
import json, os, sys, time
import vf

RE = ["n", "P", "T", "H", "X", "A", "S", "N", "C"]
TYPES = ["void", "val", "conv", "mov"]


def enum_orderings(maxlen, max_t=3, reentrant=RE):
    """prefix-closed DFS over operation words; yields (ops, meta)"""
    out = []

    def reent(R, ps, ts, ctx):
        # effect of the re-entrant action on the handle state, applied when the continuation is due to run
        if R in ("P", "H"):
            ps = [False] * len(ps)
        if R in ("T", "H"):
            ts = [False] * len(ts)
        if R == "X":
            ctx = False
        return ps, ts, ctx

    def rec(ops, ps, ts, ctx, attaches, fin, meta, ctxb=True):
        out.append((list(ops), dict(meta)))
        if len(ops) >= maxlen:
            return
        live_p = [j for j, a in enumerate(ps) if a]
        live_t = [i for i, a in enumerate(ts) if a]
        nxt = []
        if live_p and len(ts) < max_t:
            nxt.append(("tk", None))
        if len(ts) < max_t:
            for i in live_t[:1]:
                nxt.append(("tc%d" % i, None))
        if live_p and len(ps) < 2:
            nxt.append(("pc", None))
        if ctx and attaches == 0:
            for i in live_t:
                for R in reentrant:
                    nxt.append(("a%d%s" % (i, R), R))
        if ctxb and attaches == 1:
            for i in live_t[:1]:
                nxt.append(("b%d" % i, None))
                if fin:
                    nxt.append(("c%d" % i, None))   # late second continuation that captures a copy of its own task
        if ctxb and attaches == 2:
            nxt.append(("y", None))
        if not fin:
            for j in live_p:
                nxt.append(("f%d" % j, None))
        if ctx:
            nxt.append(("x", None))
        for j in live_p:
            nxt.append(("dp%d" % j, None))
        for i in live_t:
            nxt.append(("dt%d" % i, None))
        for op, R in nxt:
            ps2, ts2, ctx2, at2, fin2, m2, ctxb2 = list(ps), list(ts), ctx, attaches, fin, dict(meta), ctxb
            if op == "tk" or op.startswith("tc"):
                ts2.append(True)
            elif op == "pc":
                ps2.append(True)
            elif op[0] == "a":
                at2 = 1
                m2["R"] = R
                m2["attach_after_finish"] = fin
                if fin:
                    ps2, ts2, ctx2 = reent(R, ps2, ts2, ctx2)
            elif op[0] in ("b", "c"):
                at2 = 2
                m2["second"] = True
                m2["second_after_finish"] = fin
            elif op[0] == "f":
                fin2 = True
                m2["finished"] = True
                m2["ctx_alive_at_finish"] = ctx
                m2["attached_at_finish"] = attaches > 0
                m2["attaches_at_finish"] = attaches
                m2["ctxb_alive_at_finish"] = ctxb
                if attaches == 1 and ctx:
                    ps2, ts2, ctx2 = reent(meta.get("R"), ps2, ts2, ctx2)
            elif op == "x":
                ctx2 = False
            elif op == "y":
                ctxb2 = False
            elif op.startswith("dp"):
                ps2[int(op[2])] = False
            elif op.startswith("dt"):
                ts2[int(op[2])] = False
            rec(ops + [op], ps2, ts2, ctx2, at2, fin2, m2, ctxb2)

    rec(["P"], [True], [], True, 0, False, {})
    return out


def expected(meta):
    """(judge_count, expected_count, judge_leaks) from the statement"""
    R = meta.get("R")
    if R is None:
        return True, 0, True
    judge = not meta.get("second") and R != "N"
    if meta.get("second"):
        # documented replacement semantics: judged only when both continuations were attached before the finish
        if meta.get("finished") and meta.get("attaches_at_finish") == 2:
            return "second", (1 if meta["ctxb_alive_at_finish"] else 0), True
        return False, 0, not (R in ("S", "N") and not meta.get("finished"))
    if not meta.get("finished"):
        # never finished: continuation must be released with the handles — unless the user built a cycle (S, N)
        return judge, 0, R not in ("S", "N")
    if meta["attach_after_finish"]:
        exp = 1
    else:
        exp = 1 if meta["ctx_alive_at_finish"] else 0
    return judge, exp, True


def judge(line, meta, res, V, typ):
    jc, exp, jl = expected(meta)
    w = {"ordering": line, "result": res, "expected_count": exp}
    R = meta.get("R")
    if jc == "second":
        if res["count"] != 0 or res["count2"] != exp:
            V.violation("count-replaced got=%d/%d exp=0/%d" % (min(res["count"], 2), min(res["count2"], 2), exp),
                        "two continuations attached before finish: first ran %d, second ran %d times; documented: replaced one 0, last one %d (%s)" % (res["count"], res["count2"], exp, line), w)
        if res["count2"] == 1 and typ != "void" and res["tag2"] != 777:
            V.violation("wrong-value", "second continuation received tag=%s (%s)" % (res["tag2"], line), w)
        if res["count2"] >= 1 and not res["ctxBAliveAtCall"]:
            V.violation("ran-on-dead-context", "continuation ran although its context was destroyed (%s)" % line, w)
        jc = False
    if R == "N" and typ == "void" and res["count"] == 1 and res["count2"] != 1 and not meta.get("second"):
        # a continuation attached from inside a running continuation is attached *after* the promise finished: exactly once
        # (judged for void only: a value has been handed to the first continuation and cannot be delivered a second time)
        V.violation("attach-inside-continuation got=%d" % min(res["count2"], 2), "a continuation attached to the same task from inside its running continuation ran %d times, not once (%s)" % (res["count2"], line), w)
    if res.get("canaryBad"):
        V.violation("closure-clobbered", "continuation's captures changed while it was running (%s)" % line, w)
    if jc and res["count"] != exp:
        when = "late-attach" if meta.get("attach_after_finish") else ("ctx-dead" if not meta.get("ctx_alive_at_finish", True) else "early-attach")
        V.violation("count got=%s exp=%d %s re=%s" % (min(res["count"], 2), exp, when, R), "continuation ran %d times, statement says %d (%s)" % (res["count"], exp, line), w)
    if res["count"] >= 1 and not res["ctxAliveAtCall"] and R != "X":
        V.violation("ran-on-dead-context", "continuation ran although its context was destroyed (%s)" % line, w)
    if jc and res["count"] == 1 and typ != "void" and (res["tag"] != 777 or res["movedFrom"]):
        V.violation("wrong-value", "continuation received tag=%s movedFrom=%s instead of the finished value (%s)" % (res["tag"], res["movedFrom"], line), w)
    if jc and R == "A" and res["count"] == 1 and res["inner"] != 1:
        V.violation("nested-count", "nested promise/task inside a continuation ran %d times (%s)" % (res["inner"], line), w)
    if res["valBadDestroy"] or res["tokBadDestroy"]:
        V.violation("double-destroy", "value or continuation destroyed twice (%s)" % line, w)
    if jl:
        dead = meta.get("finished") and not meta.get("attach_after_finish") and not meta.get("ctx_alive_at_finish", True)
        ctxs = "ctx-dead" if dead else "ctx-alive"
        if res["valLive"]:
            V.violation("leak value re=%s %s" % (R, ctxs), "finished value never released (%s)" % line, w)
        elif res["tokLive"]:
            V.violation("leak continuation re=%s %s" % (R, ctxs), "continuation never released (%s)" % line, w)
        elif res["newBalance"]:
            V.violation("leak record re=%s %s" % (R, ctxs), "operator new/delete balance %d after all handles dropped (%s)" % (res["newBalance"], line), w)


def run_lines(binary, lines, leaks=True):
    """run orderings in one process; restart after a crash.  returns list of (line, result|None, crashinfo|None)"""
    results = []
    todo = list(lines)
    while todo:
        r = vf.run_proc([binary], stdin="\n".join(todo) + "\n", timeout=300, leaks=leaks)
        outl = r["out"].splitlines()
        cur = None
        done = 0
        for l in outl:
            if l.startswith("BEGIN "):
                cur = l[6:]
            elif l.startswith("{") and cur is not None:
                results.append((cur, json.loads(l), None))
                cur = None
                done += 1
        if r["rc"] == 0:
            break
        if cur is not None:
            # crashed inside ordering `cur`
            results.append((cur, None, {"rc": r["rc"], "stderr": r["err"][-6000:], "timed_out": r["timed_out"]}))
            todo = todo[done + 1:]
        else:
            # died between orderings (e.g. LeakSanitizer at exit): attribute by running singly
            if len(lines) == 1:
                results.append((lines[0], None, {"rc": r["rc"], "stderr": r["err"][-6000:], "timed_out": r["timed_out"], "at_exit": True}))
                break
            if "LeakSanitizer" in r["err"] and done == len(todo):
                for l in todo:
                    rr = vf.run_proc([binary], stdin=l + "\n", timeout=60, leaks=True)
                    if rr["rc"] != 0:
                        results.append((l, None, {"rc": rr["rc"], "stderr": rr["err"][-6000:], "timed_out": False, "at_exit": True}))
                break
            raise vf.HarnessFailure("task harness died outside an ordering: rc=%s %s" % (r["rc"], r["err"][-2000:]))
    return results


def main(tier, replay=None):
    V = vf.Verdict("C13", tier)
    binary = vf.build_harness("task")
    if replay:
        w = json.load(open(replay))["witness"]
        lines = [w["ordering"]]
        metas = None
    maxlen = 6 if tier == "quick" else 8
    ords = enum_orderings(maxlen)
    cases = []
    for ops, meta in ords:
        for typ in TYPES:
            cases.append((typ + " " + " ".join(ops), meta, typ))
    if replay:
        cases = [c for c in cases if c[0] == lines[0]] or [(lines[0], {}, lines[0].split()[0])]
    bymeta = {c[0]: c for c in cases}
    # orderings in which the *caller* builds a reference cycle and never finishes are exempt from leak checks: no LSan there
    nch = vf.NPROC * 4
    chunks = [(True, []) for _ in range(nch)] + [(False, []) for _ in range(nch)]
    for i, c in enumerate(cases):
        jl = expected(c[1])[2]
        chunks[(i % nch) + (0 if jl else nch)][1].append(c[0])
    allres = vf.pmap(lambda ch: run_lines(binary, ch[1], leaks=ch[0]) if ch[1] else [], chunks)
    n = 0
    nontriv = set()
    stats = {"count0": 0, "count1": 0, "late_attach": 0, "ctx_dead_at_finish": 0, "reentrant": 0, "two_continuations_unjudged": 0, "crashes": 0}
    samples = []
    for res in allres:
        for line, out, crash in res:
            _, meta, typ = bymeta[line]
            n += 1
            if crash:
                stats["crashes"] += 1
                sig = vf.san_signature(crash["stderr"]) or ("timeout" if crash["timed_out"] else "exit rc=%s" % crash["rc"])
                if crash["timed_out"]:
                    V.inconc("timeout in " + line)
                    continue
                V.violation("crash " + sig + " re=%s" % meta.get("R"), "sanitizer report / abnormal exit while executing ordering '%s'" % line, {"ordering": line, "stderr": crash["stderr"]})
                continue
            judge(line, meta, out, V, typ)
            if meta.get("R") is not None and meta.get("finished"):
                nontriv.add(line)
            stats["count1" if out["count"] == 1 else "count0"] += out["count"] in (0, 1)
            if meta.get("attach_after_finish"):
                stats["late_attach"] += 1
            if meta.get("finished") and meta.get("attached_at_finish") and not meta.get("ctx_alive_at_finish"):
                stats["ctx_dead_at_finish"] += 1
            if meta.get("R") not in (None, "n"):
                stats["reentrant"] += 1
            if meta.get("second") or meta.get("R") == "N":
                stats["two_continuations_unjudged"] += 1
            if len(samples) < 6 and meta.get("R") not in (None, "n") and meta.get("finished") and n % 97 == 0:
                samples.append({"ordering": line, "observed": out, "expected_count": expected(meta)[1]})
    if not samples and cases:
        samples.append({"ordering": cases[-1][0]})
    cov = {
        "evaluations": n, "distinct_nontrivial": len(nontriv),
        "rule": "all operation words of length <= %d over {tk,tc,pc,a<i><re-entrant action>,b (2nd attach),f,x,dp,dt} respecting handle lifetimes, x 4 result types "
                "(void, copyable, copyable via converting finish, move-only); non-trivial = both an attach and a finish occur" % maxlen,
        "exhaustive": True, "max_ops": maxlen, "orderings_per_type": len(ords), "observed": stats, "samples": samples,
    }
    floors = {"count1>0": stats["count1"] > 0, "late_attach>0": stats["late_attach"] > 0, "ctx_dead>0": stats["ctx_dead_at_finish"] > 0,
              "reentrant>0": stats["reentrant"] > 0}
    if replay:
        floors = {}
    V.finish(cov, "exploration", ["ASan/UBSan red-zone limits; LSan only as a backstop per worker process",
                                  "operations are driven from one thread (the library's tasks are not thread-safe by design)"], floors)
