"""C14 — STUN codec round trip, MESSAGE-INTEGRITY / FINGERPRINT against Python hmac/zlib, tamper rejection, fuzz safety."""
import hashlib, hmac, json, os, struct, sys, zlib
from concurrent.futures import ProcessPoolExecutor
import vf, pystun

ADDRS = ["mapped", "changed", "other", "source", "xorMapped", "xorPeer", "xorRelayed"]


def rand_str(r, n):
    alpha = r.choice(["abcXYZ019 -_", "äöüßéñ", "中文￮", "\U0001F600\U00010348", "á̀:;,=\"'<>&"])
    s = "".join(r.choice(alpha) for _ in range(n))
    return s


def rand_utf8_len(r, target):
    """string whose UTF-8 length is exactly target bytes"""
    s = ""
    while True:
        left = target - len(s.encode())
        if left == 0:
            return s
        c = r.choice(["a", "Z", "é", "中", "\U0001F600"])
        if len(c.encode()) <= left:
            s += c
        else:
            s += "x"


def rand_host(r):
    if r.random() < 0.5:
        return ".".join(str(r.randrange(1, 255)) for _ in range(4))
    import ipaddress
    return str(ipaddress.IPv6Address(r.getrandbits(128) | (1 << 120)))


def gen_msg(r):
    m = {"type": r.choice([0, 0x10, 0x100, 0x110]) | r.choice([1, 2, 3, 4, 6, 7, 8, 9]), "id": r.randbytes(12).hex()}
    if r.random() < 0.1:
        m["cookie"] = r.getrandbits(32)
    p = r.choice([0.15, 0.4, 0.8])

    def on():
        return r.random() < p
    if on(): m["changeRequest"] = r.choice([0, 2, 4, 6, 0xffffffff, r.getrandbits(32)])
    if on(): m["channelNumber"] = r.choice([0, 0x4000, 0x7fff, 0xffff, r.getrandbits(16)])
    if on(): m["data"] = r.randbytes(r.choice([0, 1, 2, 3, 4, 5, 763, r.randrange(0, 1500)])).hex()
    if on(): m["lifetime"] = r.choice([0, 600, 0xffffffff, r.getrandbits(32)])
    if on(): m["nonce"] = r.randbytes(r.randrange(0, 764) if r.random() < 0.3 else r.randrange(0, 40)).hex()
    if on(): m["priority"] = r.choice([0, 1, 2130706431, 0xffffffff, r.getrandbits(32)])
    if on(): m["realm"] = rand_utf8_len(r, r.choice([0, 1, 2, 3, 4, 5, 6, 7, 8, 127, 763]) if r.random() < 0.5 else r.randrange(0, 64))
    if on(): m["reservationToken"] = r.randbytes(8).hex()
    if on(): m["requestedTransport"] = r.choice([17, 6, 0, 255, r.getrandbits(8)])
    if on(): m["software"] = rand_str(r, r.randrange(0, 30))
    if on(): m["username"] = rand_utf8_len(r, r.randrange(0, 40)) if r.random() < 0.7 else rand_str(r, r.randrange(0, 200))
    if on():
        m["errorCode"] = r.choice([300, 400, 401, 420, 437, 438, 487, 500, 699, r.randrange(300, 700)])
        m["errorPhrase"] = rand_utf8_len(r, r.randrange(0, 12)) if r.random() < 0.7 else rand_str(r, r.randrange(0, 128))
    if on():
        m[r.choice(["iceControlling", "iceControlled"])] = r.randbytes(8).hex()
    if on(): m["useCandidate"] = True
    for a in ADDRS:
        if on():
            m[a] = {"host": rand_host(r), "port": r.choice([1, 80, 3478, 65535, r.randrange(1, 65536)])}
    return m


def norm_host(h):
    import ipaddress
    return str(ipaddress.ip_address(h)) if h else ""


def expected_dump(fresh, m):
    e = dict(fresh)
    for k, v in m.items():
        if k in ADDRS:
            e[k] = {"host": v["host"], "port": v["port"]}
        else:
            e[k] = v
    if "cookie" not in m:
        e["cookie"] = pystun.MAGIC
    return e


def same(a, b, only=None):
    for k in a:
        if only is not None and k not in only and k == "requestedTransport":
            continue  # member is not initialised by the constructor: an unset REQUESTED-TRANSPORT has no defined getter value

        if k in ADDRS:
            if a[k]["port"] != b[k]["port"] or norm_host(a[k]["host"]) != norm_host(b[k]["host"]):
                return k
        elif a[k] != b[k]:
            return k
    return None


def key_equiv(k1, k2, B=64):
    def n(k):
        if len(k) > B:
            k = hashlib.sha1(k).digest()
        return k + b"\0" * (B - len(k))
    return n(k1) == n(k2)


def classify_bit(enc, attrs, pos_mi, bit):
    byte = bit // 8
    if byte < 2: return "header-type"
    if byte < 4: return "header-length"
    if byte < 8: return "header-cookie"
    if byte < 20: return "header-id"
    for (t, pos, l, v) in attrs:
        end = pos + 4 + l + ((-l) % 4)
        if pos <= byte < end:
            if pos == pos_mi:
                if byte < pos + 4: return None  # MI's own type/length: not judged
                return "mi-value"
            if pos > pos_mi: return None       # after MI (fingerprint): not judged
            if byte < pos + 2: return "attr-type"
            if byte < pos + 4: return "attr-length"
            if byte < pos + 4 + l: return "attr-value"
            return "attr-padding"
    return None


def worker(args):
    wid, n_rt, n_flip, n_fuzz, tier = args
    binary = vf.build_harness("stun")
    r = vf.rng("c14", wid)
    viol, stats, samples = [], {"rt": 0, "mi_checked": 0, "fp_checked": 0, "flip_msgs": 0, "flips": 0, "flips_judged": 0, "wrong_key": 0,
                                "fuzz": 0, "fuzz_accepted": 0, "attr_kinds": {}, "key_lens": {}, "strlen_mod4": {}}, []
    reqs = [{"n": 0, "op": "fresh"}]
    meta = {}
    n = 1
    for i in range(n_rt):
        m = gen_msg(r)
        klen = r.choice([0, 1, 16, 20, 63, 64, 65, 128, 300, r.randrange(0, 301)])
        key = r.randbytes(klen)
        fp = r.random() < 0.5
        reqs.append({"n": n, "op": "rt", "msg": m, "key": key.hex(), "fp": fp})
        meta[n] = ("rt", m, key, fp)
        n += 1
    flip_from = n
    resp, crashes = vf.drive(binary, reqs)
    fresh = resp[0]["dec"]
    distinct = set()
    flip_cands = []
    for k, (kind, m, key, fp) in meta.items():
        o = resp.get(k)
        if o is None:
            continue
        stats["rt"] += 1
        for a in m:
            stats["attr_kinds"][a] = stats["attr_kinds"].get(a, 0) + 1
        for sname in ("realm", "software", "username"):
            if sname in m:
                mod = str(len(m[sname].encode()) % 4)
                stats["strlen_mod4"][mod] = stats["strlen_mod4"].get(mod, 0) + 1
        kb = "0" if not key else ("1-64" if len(key) <= 64 else "65-300")
        stats["key_lens"][kb] = stats["key_lens"].get(kb, 0) + 1
        distinct.add(json.dumps(sorted(m.keys())) + str(len(key)) + str(fp))
        w = {"msg": m, "key": key.hex(), "fp": fp, "enc": o.get("enc")}
        exp = expected_dump(fresh, m)
        d = same(exp, o["built"], m)
        if d:
            viol.append(("setter-getter " + d, "getter %s differs from the value set" % d, w))
            continue
        if not o["ok"] or not o["ok_nokey"]:
            viol.append(("roundtrip-decode-fails key=%s fp=%s" % (kb, fp), "decode(encode(m)) returned false", w))
            continue
        d = same(exp, o["dec"], m)
        if d:
            viol.append(("roundtrip-value " + d, "decode(encode(m)).%s = %r, set %r" % (d, o["dec"].get(d), exp.get(d)), w))
        enc = bytes.fromhex(o["enc"])
        attrs = pystun.walk(enc)
        if attrs is None:
            viol.append(("encode-malformed", "encoded message is not a well-formed TLV sequence with 32-bit padding", w))
            continue
        types = [a[0] for a in attrs]
        if fp:
            if types[-1] != pystun.A["FINGERPRINT"]:
                viol.append(("fingerprint-missing", "FINGERPRINT is not the last attribute", w))
            else:
                t, pos, l, v = attrs[-1]
                stats["fp_checked"] += 1
                if l != 4 or struct.unpack(">I", v)[0] != pystun.expected_fp(enc, pos):
                    viol.append(("fingerprint-value", "FINGERPRINT differs from zlib.crc32 ^ 0x5354554e", w))
        if key:
            idx = len(attrs) - (2 if fp else 1)
            if idx < 0 or attrs[idx][0] != pystun.A["MI"]:
                viol.append(("integrity-missing", "MESSAGE-INTEGRITY not where RFC 5389 puts it", w))
            else:
                t, pos, l, v = attrs[idx]
                stats["mi_checked"] += 1
                if v != pystun.expected_mi(enc, pos, key):
                    viol.append(("integrity-value key=%s" % kb, "MESSAGE-INTEGRITY differs from Python hmac-sha1 (key length %d)" % len(key), w))
                else:
                    flip_cands.append((enc, key, fp, pos, attrs))
        elif pystun.A["MI"] in types:
            viol.append(("integrity-with-empty-key", "MESSAGE-INTEGRITY written although no key was given", w))
        if len(samples) < 2 and len(m) > 6:
            samples.append({"msg": m, "key_len": len(key), "fingerprint": fp, "encoded": o["enc"][:160] + "..."})
    # tamper: single-bit flips and wrong keys
    reqs = []
    fmeta = {}
    r.shuffle(flip_cands)
    for enc, key, fp, pos_mi, attrs in flip_cands[:n_flip]:
        reqs.append({"n": n, "op": "flips", "buf": enc.hex(), "key": key.hex(), "refp": fp})
        fmeta[n] = (enc, key, fp, pos_mi, attrs)
        n += 1
        for _ in range(3):
            other = r.randbytes(r.choice([1, len(key), 20, 64, 65, 200]))
            if len(other) == len(key) and r.random() < 0.5:
                b = bytearray(key)
                b[r.randrange(len(b))] ^= 1 << r.randrange(8)
                other = bytes(b)
            if not other or key_equiv(other, key):
                continue
            reqs.append({"n": n, "op": "dec", "buf": enc.hex(), "key": other.hex()})
            fmeta[n] = ("wrongkey", enc, key, other)
            n += 1
    hm = {}
    for klen in (range(0, 301) if wid == 0 else [r.randrange(0, 301) for _ in range(20)]):
        key = r.randbytes(klen)
        text = r.randbytes(r.choice([0, 1, 55, 56, 63, 64, 65, 200]))
        reqs.append({"n": n, "op": "hmac", "key": key.hex(), "text": text.hex()})
        hm[n] = (key, text)
        n += 1
        reqs.append({"n": n, "op": "crc", "text": text.hex()})
        hm[n] = ("crc", text)
        n += 1
    fz = {}
    per = 20000
    for i in range(0, n_fuzz, per):
        reqs.append({"n": n, "op": "fuzz", "seed": r.getrandbits(48), "count": min(per, n_fuzz - i), "key": "6b6579"})
        fz[n] = True
        n += 1
    resp2, crashes2 = vf.drive(binary, reqs)
    crashes += crashes2
    for k, fm in fmeta.items():
        o = resp2.get(k)
        if o is None:
            continue
        if fm[0] == "wrongkey":
            stats["wrong_key"] += 1
            if o["ok"]:
                viol.append(("wrong-key-accepted", "message with MESSAGE-INTEGRITY under key A decodes under a different key B", {"enc": fm[1].hex(), "key": fm[2].hex(), "other": fm[3].hex()}))
            continue
        enc, key, fp, pos_mi, attrs = fm
        stats["flip_msgs"] += 1
        stats["flips"] += o["nbits"]
        acc = set(o["accepted"])
        for bit in range(o["nbits"]):
            c = classify_bit(enc, attrs, pos_mi, bit)
            if c is None:
                continue
            stats["flips_judged"] += 1
            if bit in acc:
                viol.append(("tamper-accepted " + c, "flipping bit %d (%s) of a message protected by MESSAGE-INTEGRITY is accepted under the key" % (bit, c),
                             {"enc": enc.hex(), "key": key.hex(), "bit": bit, "fingerprint_recomputed": fp}))
    for k, (key, text) in hm.items():
        o = resp2.get(k)
        if o is None:
            continue
        if key == "crc":
            if int(o["crc"]) != (zlib.crc32(text) & 0xffffffff):
                viol.append(("crc32", "generateCrc32 differs from zlib.crc32", {"text": text.hex()}))
            continue
        kb = "1-64" if len(key) <= 64 else "65-300"
        if o["sha1"] != hmac.new(key, text, hashlib.sha1).hexdigest():
            viol.append(("hmac-sha1 key=" + kb, "generateHmacSha1 differs from RFC 2104 (Python hmac) for a %d-byte key" % len(key), {"key": key.hex(), "text": text.hex()}))
        if o["md5"] != hmac.new(key, text, hashlib.md5).hexdigest():
            viol.append(("hmac-md5 key=" + kb, "generateHmacMd5 differs from RFC 2104 (Python hmac) for a %d-byte key" % len(key), {"key": key.hex(), "text": text.hex()}))
        stats["hmac"] = stats.get("hmac", 0) + 1
    for k in fz:
        o = resp2.get(k)
        if o:
            stats["fuzz"] += [q for q in reqs if q["n"] == k][0]["count"]
            stats["fuzz_accepted"] += o["accepted"]
    for req, info in crashes:
        viol.append(("crash " + vf.crash_sig(info), "sanitizer report / abnormal exit in the STUN codec", {"request": {k: v for k, v in req.items() if k != "msg"} if req.get("op") == "fuzz" else req,
                                                                                                       "input": info.get("crash_input"), "stderr": info.get("stderr", "")[-3000:]}))
    return viol, stats, samples, len(distinct)


def merge(a, b):
    for k, v in b.items():
        if isinstance(v, dict):
            merge(a.setdefault(k, {}), v)
        else:
            a[k] = a.get(k, 0) + v


def main(tier, replay=None):
    V = vf.Verdict("C14", tier)
    vf.build_harness("stun")
    W = vf.NPROC
    if tier == "quick":
        n_rt, n_flip, n_fuzz = 20000 // W, max(1, 320 // W), 1000000 // W
    else:
        n_rt, n_flip, n_fuzz = 1000000 // W, 20000 // W, 100000000 // W
    with ProcessPoolExecutor(max_workers=W) as ex:
        res = list(ex.map(worker, [(w, n_rt, n_flip, n_fuzz, tier) for w in range(W)]))
    stats, samples, distinct = {}, [], 0
    for viol, st, sm, dn in res:
        for sig, what, w in viol:
            V.violation(sig, what, w)
        merge(stats, st)
        samples += sm[:1]
        distinct += dn
    ev = stats["rt"] + stats["flips"] + stats["wrong_key"] + stats["fuzz"] + stats.get("hmac", 0)
    cov = {"evaluations": ev, "distinct_nontrivial": distinct,
           "rule": "random STUN messages over every attribute the codec knows x key lengths 0..300 x fingerprint on/off; distinct = distinct (attribute set, key length, fingerprint) "
                   "combinations among the round trips; plus every single-bit flip of sampled protected messages, wrong keys, HMAC for every key length 0..300, and random/structure-aware byte strings",
           "observed": stats, "samples": samples[:4]}
    floors = {"round_trips": stats["rt"] > 0, "mi_checked": stats["mi_checked"] > 0, "fp_checked": stats["fp_checked"] > 0,
              "flips_judged": stats["flips_judged"] > 0, "wrong_key": stats["wrong_key"] > 0, "fuzz": stats["fuzz"] > 0,
              "hmac_long_keys": stats.get("hmac", 0) >= 301}
    V.finish(cov, "exploration", ["Python hmac/hashlib/zlib are the reference for RFC 2104 / CRC-32", "ASan/UBSan red-zone limits for the fuzz part"], floors)
