"""C03 — stream framing is independent of how the byte stream is split into reads (engine: split)"""
import collections, json, os, sys
from concurrent.futures import ProcessPoolExecutor
import vf

HEADERS = [
    "<?xml version='1.0'?><stream:stream xmlns='jabber:client' xmlns:stream='http://etherx.jabber.org/streams' from='example.org' id='s-1' version='1.0'>",
    "<stream:stream from=\"example.org\" id=\"++TR84Sm6A3hnt3Q065SnAbbk3Y=\" xmlns=\"jabber:client\" xmlns:stream=\"http://etherx.jabber.org/streams\" xml:lang=\"en\" version=\"1.0\" to=\"juliet@example.org\">",
    "<?xml version='1.0' encoding='UTF-8'?>\n<stream:stream xmlns:stream='http://etherx.jabber.org/streams' xmlns='jabber:client' from='müller.example' id='ÿ-中-\U0001F600' version='1.0'>",
]
STANZAS = [
    "<message from='romeo@example.net/orchard' to='juliet@example.org' type='chat' id='m1'><body>Wherefore art thou?</body></message>",
    "<message to='a@b' id='u2'><body>héllo wörld ß</body><subject>Ä</subject></message>",
    "<message to='a@b' id='u3'><body>中文 日本語 €</body></message>",
    "<message to='a@b' id='u4'><body>\U0001F600 astral \U00010348\U0001D11E end</body></message>",
    "<message to='a@b' id='e5'><body>a &amp; b &lt; c &gt; d &quot;q&quot; &apos;s&apos; &#x1F600; &#233;</body></message>",
    "<message to=\"a@b\" id=\"q6\" xml:lang='en'><body xml:lang=\"de\">Ein 'Test' mit \"Anführung\" &amp; x>y</body><thread parent='p&amp;q'>t</thread></message>",
    "<presence from='juliet@example.org/balcony'><show>away</show><status>be right back ☺</status><c xmlns='http://jabber.org/protocol/caps' hash='sha-1' node='n' ver='QgayPKawpkPSDYmwT/WM94uAlu0='/></presence>",
    "<iq type='result' id='r7' to='juliet@example.org/balcony'><query xmlns='jabber:iq:roster'><item jid='romeo@example.net' name='Romeo ♥' subscription='both'><group>Friends</group></item><item jid='müller@example.org'/></query></iq>",
    "<stream:features><starttls xmlns='urn:ietf:params:xml:ns:xmpp-tls'><required/></starttls><mechanisms xmlns='urn:ietf:params:xml:ns:xmpp-sasl'><mechanism>SCRAM-SHA-1</mechanism><mechanism>PLAIN</mechanism></mechanisms></stream:features>",
    "<r xmlns='urn:xmpp:sm:3'/>",
    "<a xmlns='urn:xmpp:sm:3' h='12'/>",
    "<iq type='get' id='p8'><ping xmlns='urn:xmpp:ping'/></iq>",
    "<message id='n9'><body>line1\nline2\ttabbed  double  space</body><x xmlns='jabber:x:oob'><url>http://example.org/?a=1&amp;b=2</url></x></message>",
    "<message id='w10'><body> leading and trailing </body></message>",
]
WS = [" ", "\n", "  \n\t", ""]
CLOSE = "</stream:stream>"


def build_streams(r):
    streams = []
    for i in range(40):
        h = HEADERS[i % len(HEADERS)]
        n = r.choice([1, 2, 3, 5])
        st = [STANZAS[(i + k * 3) % len(STANZAS)] for k in range(n)]
        if i < len(STANZAS):
            st[0] = STANZAS[i]
        parts = [h]
        for s in st:
            parts.append(r.choice(WS))
            parts.append(s)
        parts.append(r.choice(WS))
        if i % 3 != 2:
            parts.append(CLOSE)
        streams.append("".join(parts).encode("utf8"))
    return streams


def classify(stream, cut):
    """what a cut position lies inside (for signatures and split biasing)"""
    b = stream
    if cut > 0 and cut < len(b) and (b[cut] & 0xC0) == 0x80:
        return "inside-multibyte-char"
    # find enclosing construct by scanning
    lt = b.rfind(b"<", 0, cut)
    gt = b.rfind(b">", 0, cut)
    if lt > gt:
        tag = b[lt:cut]
        if tag.startswith(b"<?"):
            return "inside-xml-declaration"
        if tag.startswith(b"<stream:stream"):
            return "inside-stream-header"
        if tag.startswith(b"</stream:stream"):
            return "inside-stream-close"
        q1, q2 = tag.count(b"'"), tag.count(b'"')
        if q1 % 2 or q2 % 2:
            return "inside-attribute-value"
        return "inside-tag"
    amp = b.rfind(b"&", 0, cut)
    semi = b.rfind(b";", 0, cut)
    if amp > semi and amp > gt:
        return "inside-entity"
    return "between-tags-or-text"


def interesting(stream):
    pos = set()
    for i in range(1, len(stream)):
        c = classify(stream, i)
        if c in ("inside-multibyte-char", "inside-entity", "inside-tag", "inside-attribute-value", "inside-stream-header", "inside-stream-close", "inside-xml-declaration"):
            pos.add(i)
    return sorted(pos)


def worker(args):
    wid, jobs = args
    binary = vf.build_harness("split")
    reqs = [{"n": n, "stream": s.hex(), "splits": splits} for n, (si, s, splits) in enumerate(jobs)]
    resp, crashes = vf.drive(binary, reqs, timeout=3600)
    viol, stats = [], collections.Counter()
    for rq, info in crashes:
        viol.append(("crash " + vf.crash_sig(info), "sanitizer report / abnormal exit in the stream receiver", {"stream": bytes.fromhex(rq["stream"]).decode("utf8", "replace"), "stderr": info["stderr"][-3000:]}))
    inconc = []
    for n, (si, s, splits) in enumerate(jobs):
        o = resp.get(n)
        if not o:
            continue
        res = o["results"]
        ref = res[0]
        if ref.get("timeout"):
            inconc.append("reference delivery timed out (stream %d)" % si)
            continue
        stats["streams_runs"] += 1
        for sp, rr in zip(splits[1:], res[1:]):
            stats["chunkings"] += 1
            stats["chunks"] += len(sp) + 1
            if rr.get("timeout"):
                inconc.append("delivery timed out (stream %d, cuts %s)" % (si, sp[:5]))
                continue
            if len(rr["reads"]) > 1:
                stats["observed_multi_read"] += 1
            if rr["events"] != ref["events"]:
                ev, rf = rr["events"], ref["events"]
                if len(ev) < len(rf):
                    kind = "events-lost"
                elif len(ev) > len(rf):
                    kind = "events-duplicated-or-extra"
                elif [e.split(" ")[0] for e in ev] != [e.split(" ")[0] for e in rf]:
                    kind = "events-reordered"
                else:
                    kind = "content-altered"
                # attribute the difference to the kind of position the cuts fall into (first cut whose class is not plain)
                classes = sorted(set(classify(s, c) for c in sp))
                if "inside-multibyte-char" in classes:
                    cls = "inside-multibyte-char"
                else:
                    cls = next((c for c in classes if c != "between-tags-or-text"), "between-tags-or-text") if len(sp) <= 3 else "many-cuts"
                viol.append(("%s %s" % (kind, cls), "chunking changes the delivered events (%s, cut %s)" % (kind, cls),
                             {"stream": s.decode("utf8"), "cuts": sp, "observed_reads": rr["reads"], "events": ev, "reference_events": rf}))
            else:
                stats["equal"] += 1
                for c in sp[:3]:
                    stats["cut:" + classify(s, c)] += 1
    return viol, dict(stats), inconc


def main(tier, replay=None):
    V = vf.Verdict("C03", tier)
    vf.build_harness("split")
    r = vf.rng("c03")
    streams = build_streams(r)
    jobs = []
    if replay:
        w = json.load(open(replay))["witness"]
        s = w["stream"].encode("utf8")
        jobs = [(0, s, [[], w["cuts"]])]
    else:
        nrand = 2000 if tier == "quick" else 200000
        for si, s in enumerate(streams):
            two = [[c] for c in range(1, len(s))]
            # exhaustive 2-way splits, in slices so that workers share the load; every job starts with the one-shot reference
            for k in range(0, len(two), 150):
                jobs.append((si, s, [[]] + two[k:k + 150]))
            jobs.append((si, s, [[], list(range(1, len(s)))]))   # one byte at a time
            it = interesting(s)
            rnd = []
            for _ in range(nrand // len(streams)):
                k = r.choice([2, 3, 4, 8, 20])
                cuts = set()
                while len(cuts) < min(k, len(s) - 1):
                    cuts.add(r.choice(it) if it and r.random() < 0.7 else r.randrange(1, len(s)))
                rnd.append(sorted(cuts))
            for k in range(0, len(rnd), 100):
                jobs.append((si, s, [[]] + rnd[k:k + 100]))
    W = vf.NPROC
    r.shuffle(jobs)
    parts = [jobs[w::W] for w in range(W)]
    with ProcessPoolExecutor(max_workers=W) as pool:
        res = list(pool.map(worker, [(w, parts[w]) for w in range(W)]))
    stats = collections.Counter()
    for viol, st, inconc in res:
        for sig, what, w in viol:
            V.violation(sig, what, w)
        for i in inconc:
            V.inconc(i)
        stats.update(st)
    cov = {"evaluations": stats["chunkings"], "distinct_nontrivial": stats["equal"],
           "rule": "%d streams (3 stream headers x 14 stanza kinds incl. 2/3/4-byte UTF-8, entities, quotes, '>' in attribute values, whitespace keep-alives, with/without </stream:stream>): every 2-way split of every stream, "
                   "one byte at a time, and random k-way splits (k<=20) biased towards multi-byte characters, entities, tag and attribute interiors; each chunk is written and flushed over loopback TCP only after the receiver "
                   "consumed the previous one (observed read sizes recorded); event sequence compared with the one-shot delivery; distinct_nontrivial = chunkings confirmed equal" % len(streams),
           "exhaustive_two_way": True, "streams": len(streams), "stream_bytes": sum(len(s) for s in streams), "observed": dict(stats),
           "samples": [{"stream": streams[3].decode("utf8")[:300], "cuts": [57]}]}
    floors = {"chunkings": stats["chunkings"] > 1000, "multibyte_cuts": stats["cut:inside-multibyte-char"] > 0 or bool(V.viol), "entity_cuts": stats["cut:inside-entity"] > 0 or bool(V.viol)} if not replay else {}
    V.finish(cov, "exploration", ["loopback TCP: each chunk normally arrives as one read, the observed read sizes are recorded and the verdict is about what was observed",
                                  "keep-alive notifications (null element for whitespace-only buffers) are not stream-open/stanza/stream-close events and are filtered on both sides"], floors)
