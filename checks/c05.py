"""C05 — SASL mechanism choice: strongest permitted mechanism, never a disabled one (engine: sasl)

Reference = 30 lines written from the statement; the real SaslManager / Sasl2Manager run behind a mock socket.
"""
import json, os, sys
from concurrent.futures import ProcessPoolExecutor
import vf

UNIVERSE = ["SCRAM-SHA-1", "SCRAM-SHA-256", "SCRAM-SHA-512", "SCRAM-SHA3-512", "DIGEST-MD5", "PLAIN", "ANONYMOUS",
            "HT-SHA-256-NONE", "HT-SHA3-512-NONE", "HT-SHA-256-ENDP", "SCRAM-SHA-1-PLUS", "plain"]
DISABLABLE = ["PLAIN", "SCRAM-SHA-1", "SCRAM-SHA-256", "DIGEST-MD5", "ANONYMOUS", "HT-SHA-256-NONE"]
CREDS = [
    {"password": "pw"},
    {"password": ""},
    {"password": "pw", "token": {"mech": "HT-SHA-256-NONE", "secret": "tok"}},
    {"password": "", "token": {"mech": "HT-SHA-256-NONE", "secret": "tok"}},
    {"password": "pw", "token": {"mech": "HT-SHA3-512-NONE", "secret": "tok"}},
    {"password": "pw", "token": {"mech": "HT-SHA-256-ENDP", "secret": "tok"}},
]
HT_HASHES = ["SHA-256", "SHA-384", "SHA-512", "SHA3-224", "SHA3-256", "SHA3-384", "SHA3-512"]
HT_CB = ["ENDP", "UNIQ", "EXPR", "NONE"]
SCRAM = ["SCRAM-SHA-1", "SCRAM-SHA-256", "SCRAM-SHA-512", "SCRAM-SHA3-512"]


def parse(name):
    """-> (family rank, sub rank) or None for names the client does not support"""
    if name.startswith("HT-"):
        rest = name[3:]
        for hi, h in enumerate(HT_HASHES):
            for ci, c in enumerate(HT_CB):
                if rest == h + "-" + c:
                    return ("HT", hi, ci)
        return None
    if name in SCRAM:
        return ("SCRAM", SCRAM.index(name))
    return {"DIGEST-MD5": ("DIGEST-MD5",), "PLAIN": ("PLAIN",), "ANONYMOUS": ("ANONYMOUS",), "X-FACEBOOK-PLATFORM": ("X-FB",),
            "X-MESSENGER-OAUTH2": ("X-WL",), "X-OAUTH2": ("X-GOOGLE",)}.get(name)


FAMILY_RANK = {"X-GOOGLE": 0, "X-WL": 1, "X-FB": 2, "ANONYMOUS": 3, "PLAIN": 4, "DIGEST-MD5": 5, "SCRAM": 6, "HT": 7}


def usable(p, cred):
    fam = p[0]
    if fam == "HT":
        t = cred.get("token")
        return bool(t) and parse(t["mech"]) == p and p[2] == HT_CB.index("NONE")
    if fam in ("SCRAM", "DIGEST-MD5", "PLAIN"):
        return bool(cred.get("password"))
    if fam == "ANONYMOUS":
        return True
    if fam == "X-FB":
        return bool(cred.get("facebook"))
    if fam == "X-GOOGLE":
        return bool(cred.get("google"))
    if fam == "X-WL":
        return bool(cred.get("windowslive"))
    return False


def reference(offered, disabled, preferred, cred):
    """name of the mechanism to use, or None for 'mechanism mismatch, send nothing'"""
    cands = []
    for m in offered:
        if m in disabled:
            continue
        p = parse(m)
        if p is None or not usable(p, cred):
            continue
        cands.append((p, m))
    if not cands:
        return None
    if preferred:
        pp = parse(preferred)
        for p, m in cands:
            if pp is not None and p == pp:
                return m
    best = max(cands, key=lambda c: (FAMILY_RANK[c[0][0]],) + tuple(c[0][1:]))
    return best[1]


def effective_offer(offered, sasl2, fast):
    if not sasl2:
        return offered
    return [m for m in offered if not m.startswith("HT-") or fast]


def range_worker(args):
    lo, hi, sasl2, fast, seed, n0 = args
    binary = vf.build_harness("sasl")
    req = {"n": n0, "op": "range", "universe": UNIVERSE, "disablable": DISABLABLE, "creds": CREDS, "sasl2": sasl2, "fast": fast,
           "from": lo, "to": hi, "seed": seed}
    resp, crashes = vf.drive(binary, [req], timeout=3600)
    viol = []
    stats = {"cases": 0, "mismatch_expected": 0, "by_choice": {}}
    for rq, info in crashes:
        viol.append(("crash " + vf.crash_sig(info), "sanitizer report / abnormal exit in mechanism negotiation", {"request": rq, "stderr": info["stderr"][-3000:]}))
    if n0 not in resp:
        return viol, stats
    res = resp[n0]["res"]
    i = 0
    for om in range(lo, hi):
        offered = [UNIVERSE[b] for b in range(len(UNIVERSE)) if om & (1 << b)]
        eff = effective_offer(offered, sasl2, fast)
        for dm in range(1 << len(DISABLABLE)):
            disabled = [DISABLABLE[b] for b in range(len(DISABLABLE)) if dm & (1 << b)]
            for pref in range(len(UNIVERSE) + 1):
                preferred = UNIVERSE[pref - 1] if pref else ""
                for ci, cred in enumerate(CREDS):
                    got = res[i]
                    i += 1
                    exp = reference(eff, disabled, preferred, cred)
                    expc = "-" if exp is None else chr(65 + UNIVERSE.index(exp))
                    stats["cases"] += 1
                    if exp is None:
                        stats["mismatch_expected"] += 1
                    else:
                        stats["by_choice"][exp] = stats["by_choice"].get(exp, 0) + 1
                    if got != expc:
                        gotname = {"-": "MechanismMismatch", "!": "other error, nothing sent", "#": "a name outside the offer", "+": "more than one element"}.get(got) or UNIVERSE[ord(got) - 65]
                        kind = classify(gotname, exp, disabled, eff, cred)
                        viol.append(("%s sasl%d" % (kind, 2 if sasl2 else 1),
                                     "client chose %s, reference says %s" % (gotname, exp or "mechanism mismatch (send nothing)"),
                                     {"offered": offered, "disabled": disabled, "preferred": preferred, "credentials": cred, "sasl2": sasl2, "fast": fast, "chosen": gotname, "expected": exp}))
    return viol, stats


def classify(gotname, exp, disabled, eff, cred):
    if gotname in disabled:
        return "disabled-mechanism-used"
    if gotname in UNIVERSE + EXTRA and gotname not in eff:
        return "unoffered-mechanism-used"
    if exp is None:
        return "sent-instead-of-mismatch"
    if gotname == "MechanismMismatch":
        return "mismatch-instead-of-" + (parse(exp) or ("?",))[0]
    pg, pe = parse(gotname), parse(exp)
    if pg is None:
        return "unsupported-name-used"
    if not usable(pg, cred):
        return "unusable-credentials"
    return "weaker-choice %s-over-%s" % (pg[0], pe[0])


EXTRA = ["X-FACEBOOK-PLATFORM", "X-OAUTH2", "X-MESSENGER-OAUTH2", "SCRAM-SHA-1024", "HT-SHA-256", "HT-SHA-512-NONE", "HT-SHA-256-UNIQ", "", " PLAIN",
         "SCRAM-SHA-256-PLUS", "DIGEST-MD5 ", "scram-sha-1", "EXTERNAL", "GSSAPI", "HT-SHA-256-NONE-X", "SCRAM-SHA3-512-PLUS", "HT-SHA3-512-EXPR"]


def random_worker(args):
    wid, count = args
    binary = vf.build_harness("sasl")
    r = vf.rng("c05", wid)
    names = UNIVERSE + EXTRA
    reqs, meta = [], {}
    for n in range(count):
        k = r.choice([1, 2, 3, 5, 8, 12])
        offered = [r.choice(names) for _ in range(k)]
        if r.random() < 0.3:
            offered += offered[:2]
        disabled = r.sample(names, r.choice([0, 1, 2, 4]))
        if r.random() < 0.5:
            disabled = list(set(disabled + ["PLAIN"]))
        preferred = r.choice([""] * 3 + names)
        cred = {"password": r.choice(["pw", "", "päss"])}
        if r.random() < 0.4:
            cred["token"] = {"mech": r.choice(["HT-SHA-256-NONE", "HT-SHA3-512-NONE", "HT-SHA-512-NONE", "HT-SHA-256-UNIQ", "HT-SHA-256-ENDP", "HT-SHA3-512-EXPR"]), "secret": "s"}
        for x in ("facebook", "google", "windowslive"):
            if r.random() < 0.3:
                cred[x] = "dG9r"
        sasl2 = r.random() < 0.5
        fast = r.random() < 0.5
        q = {"n": n, "op": "choose", "sasl2": sasl2, "disabled": disabled, "preferred": preferred, "fast": fast}
        q.update(cred)
        if sasl2:
            q["offered"] = [m for m in offered if not m.startswith("HT-")]
            if r.random() < 0.8:
                q["fastOffered"] = [m for m in offered if m.startswith("HT-")]
                eff = q["offered"] + (q["fastOffered"] if fast else [])
            else:
                eff = q["offered"]
        else:
            q["offered"] = offered
            eff = offered
        reqs.append(q)
        meta[n] = (eff, disabled, preferred, cred, sasl2, fast, q)
    resp, crashes = vf.drive(binary, reqs)
    viol, stats = [], {"cases": 0, "mismatch_expected": 0, "by_choice": {}, "fast_flag_checked": 0}
    for rq, info in crashes:
        viol.append(("crash " + vf.crash_sig(info), "sanitizer report / abnormal exit in mechanism negotiation", {"request": rq, "stderr": info["stderr"][-3000:]}))
    for n, (eff, disabled, preferred, cred, sasl2, fast, q) in meta.items():
        o = resp.get(n)
        if not o:
            continue
        stats["cases"] += 1
        exp = reference(eff, disabled, preferred, cred)
        w = {"request": q, "observed": o, "expected": exp}
        tag, mech, fastflag = (o["first"].split("|") + ["", "", ""])[:3] if o["first"] else ("", "", "")
        if exp is None:
            stats["mismatch_expected"] += 1
            if o["nsent"] or o["error"] != "MechanismMismatch":
                viol.append(("%s sasl%d" % (classify(mech or o["error"], exp, disabled, eff, cred), 2 if sasl2 else 1),
                             "reference says mechanism mismatch/send nothing; client sent %r error=%r" % (o["first"], o["error"]), w))
            continue
        stats["by_choice"][exp] = stats["by_choice"].get(exp, 0) + 1
        want_tag = "authenticate" if sasl2 else "auth"
        if o["nsent"] != 1 or tag != want_tag or mech != exp:
            viol.append(("%s sasl%d" % (classify(mech or "MechanismMismatch", exp, disabled, eff, cred), 2 if sasl2 else 1),
                         "client chose %r (error %r), reference says %s" % (o["first"], o["error"], exp), w))
    return viol, stats


def wire_worker(args):
    """end to end: a real QXmppClient configured through QXmppConfiguration against the scripted server; the first authentication element on the wire is compared with the reference"""
    import wire
    from xml.dom import minidom
    wid, count = args
    binary = vf.build_harness("wire")
    r = vf.rng("c05-wire", wid)
    names = UNIVERSE + ["X-OAUTH2", "SCRAM-SHA-1024", "HT-SHA-512-NONE", "EXTERNAL", "scram-sha-1"]
    cases, metas = [], []
    for n in range(count):
        offered = r.sample(names, r.choice([1, 2, 3, 5, 8]))
        disabled = r.sample(DISABLABLE, r.choice([0, 0, 1, 2, 3]))
        if r.random() < 0.5 and "PLAIN" not in disabled:
            disabled.append("PLAIN")
        preferred = r.choice([""] * 3 + UNIVERSE)
        cred = {"password": r.choice(["pw", "pw", ""])}
        if r.random() < 0.35:
            cred["token"] = {"mech": r.choice(["HT-SHA-256-NONE", "HT-SHA3-512-NONE", "HT-SHA-256-ENDP"]), "secret": "s3cr3t"}
        sasl2 = r.random() < 0.5
        fast = r.random() < 0.6
        kw = dict(password=cred["password"], disabled=disabled, sasl2=sasl2, fast=fast)
        if preferred:
            kw["mechanism"] = preferred
        if "token" in cred:
            kw["token"] = cred["token"]
        if sasl2:
            plain_mechs = [m for m in offered if not m.startswith("HT-")]
            ht = [m for m in offered if m.startswith("HT-")]
            offer_fast = r.random() < 0.8
            feats = wire.features(wire.f_sasl2(mechs=plain_mechs, bind2=True, fast=ht if (offer_fast and ht) else None))
            eff = plain_mechs + (ht if (fast and offer_fast) else [])
            kw["userAgent"] = True
        else:
            feats = wire.features(wire.f_mechs(offered))
            eff = offered
        steps = [wire.client(**kw), dict(op="connect"), wire.A("stream:stream"), wire.S(wire.hdr("s1") + feats),
                 wire.A("authenticate" if sasl2 else "auth", optional=True, timeout=1500), dict(op="settle", quiet=5)]
        cases.append(dict(steps=steps, timeout=3000))
        metas.append((eff, disabled, preferred, cred, sasl2, fast, offered))
    outs, crashes = wire.run_cases(binary, cases)
    viol, stats = [], {"wire_sessions": 0, "wire_mismatch_expected": 0, "wire_choices": {}}
    for rq, info in crashes:
        viol.append(("wire crash " + vf.crash_sig(info), "sanitizer report / abnormal exit of a connecting client", {"stderr": info["stderr"][-3000:]}))
    for out, (eff, disabled, preferred, cred, sasl2, fast, offered) in zip(outs, metas):
        if not out:
            continue
        stats["wire_sessions"] += 1
        exp = reference(eff, disabled, preferred, cred)
        first = None
        for e in wire.srv_rx(out["journal"]):
            if e["tag"] in ("auth", "authenticate", "response", "iq", "message", "presence"):
                first = e
                break
        mech = None
        if first is not None and first["tag"] in ("auth", "authenticate"):
            mech = minidom.parseString(first["xml"].encode("utf8")).documentElement.getAttribute("mechanism")
        w = {"offered": offered, "effective_offer": eff, "disabled": disabled, "preferred": preferred, "credentials": cred, "sasl2": sasl2, "fast_enabled": fast,
             "first_element_after_features": first and first.get("xml", "")[:300], "expected": exp,
             "client_errors": [e.get("text") for e in wire.signals(out["journal"], "errorOccurred")]}
        if exp is None:
            stats["wire_mismatch_expected"] += 1
            if first is not None:
                viol.append(("wire %s sasl%d" % (classify(mech or "?", exp, disabled, eff, cred), 2 if sasl2 else 1), "nothing qualifies, yet the client sent %s" % first["tag"], w))
        elif mech != exp:
            viol.append(("wire %s sasl%d" % (classify(mech or "MechanismMismatch", exp, disabled, eff, cred), 2 if sasl2 else 1), "on the wire the client used %r, the reference says %s" % (mech, exp), w))
        else:
            stats["wire_choices"][exp] = stats["wire_choices"].get(exp, 0) + 1
    return viol, stats


def merge(a, b):
    for k, v in b.items():
        if isinstance(v, dict):
            merge(a.setdefault(k, {}), v)
        else:
            a[k] = a.get(k, 0) + v


def main(tier, replay=None):
    V = vf.Verdict("C05", tier)
    vf.build_harness("sasl")
    r = vf.rng("c05-main")
    nmask = 1 << len(UNIVERSE)
    jobs = []
    n0 = 0
    if tier == "thorough":
        step = 16
        for sasl2, fast in ((False, False), (True, True), (True, False)):
            for lo in range(0, nmask, step):
                jobs.append((lo, min(nmask, lo + step), sasl2, fast, r.getrandbits(40), n0))
                n0 += 1
        exhaustive = True
        nrand = 20000
    else:
        # seeded 2 % slice of the offered masks + all singletons and pairs
        masks = set(1 << b for b in range(len(UNIVERSE)))
        masks |= set((1 << a) | (1 << b) for a in range(len(UNIVERSE)) for b in range(a))
        masks = sorted(masks)
        chosen = set(r.sample(range(nmask), 80))
        chosen |= set(r.sample(masks, 40))
        for om in sorted(chosen):
            sasl2, fast = r.choice([(False, False), (True, True), (True, False)])
            jobs.append((om, om + 1, sasl2, fast, r.getrandbits(40), n0))
            n0 += 1
        exhaustive = False
        nrand = 4000
    stats = {}
    with ProcessPoolExecutor(max_workers=vf.NPROC) as ex:
        res = list(ex.map(range_worker, jobs, chunksize=1))
        res += list(ex.map(random_worker, [(w, nrand) for w in range(vf.NPROC)]))
        res += list(ex.map(wire_worker, [(w, (1600 if tier == "quick" else 64000) // vf.NPROC) for w in range(vf.NPROC)]))
    for viol, st in res:
        for sig, what, w in viol:
            V.violation(sig, what, w)
        merge(stats, st)
    per_mask = (1 << len(DISABLABLE)) * (len(UNIVERSE) + 1) * len(CREDS)
    cov = {"evaluations": stats["cases"], "distinct_nontrivial": stats["cases"] - stats["mismatch_expected"],
           "rule": "offered subsets of a 12-name universe (all 4096 in thorough; seeded slice + singletons/pairs in quick) x 64 disabled sets x 13 preferred x 6 credential states "
                   "(%d per subset) for SASL, SASL2+FAST, SASL2 without FAST, each in a random order; plus random offers over a 29-name universe with duplicates, X-* tokens and garbled names; "
                   "non-trivial = reference picks a mechanism (not a mismatch)" % per_mask,
           "exhaustive": exhaustive, "observed": stats,
           "samples": [{"offered": ["SCRAM-SHA-1", "PLAIN", "HT-SHA-256-NONE"], "disabled": ["PLAIN"], "preferred": "PLAIN", "credentials": CREDS[2],
                        "reference": reference(["SCRAM-SHA-1", "PLAIN", "HT-SHA-256-NONE"], ["PLAIN"], "PLAIN", CREDS[2])}]}
    floors = {"cases": stats["cases"] > 1000, "mismatch_cases": stats["mismatch_expected"] > 0, "choices>=5": len(stats["by_choice"]) >= 5,
              "wire_sessions": stats.get("wire_sessions", 0) >= 1000, "wire_choices>=5": len(stats.get("wire_choices", {})) >= 5, "wire_mismatch": stats.get("wire_mismatch_expected", 0) > 0}
    cov["evaluations"] += stats.get("wire_sessions", 0)
    cov["on_the_wire"] = "real QXmppClient sessions configured through QXmppConfiguration (disabled mechanisms, preferred mechanism, password / FAST token, SASL vs SASL2, FAST on/off) against the scripted server offering random mechanism lists: the first authentication element the server receives is compared with the same reference"
    V.finish(cov, "exploration", ["the reference choice function is our reading of the property statement (token > SCRAM by hash > DIGEST-MD5 > PLAIN > ANONYMOUS > X-*)",
                                  "the enumeration drives the managers behind a mock socket; the whole-client path is sampled by real sessions against the scripted server"], floors)
